#!/bin/bash
# verify_seed.sh <ID> <variant>: confirm a seeded change in a scratch worktree of /repo HEAD:
# applies, builds, existing suite passes, demo fails with it and passes without it.
id="$1"; v="$2"
src=${SRCROOT:-/tmp/seedout}/$id/$v
wt=/tmp/vs-$id$v
export GOFLAGS=-mod=mod GOPROXY=off GOSUMDB=off GOTOOLCHAIN=local
log=$src/verify.log
{
git -C /repo worktree remove --force $wt 2>/dev/null
git -C /repo worktree add -q --detach $wt ${BASE:-HEAD} || exit 2
cd $wt
if ! git apply $src/patch.diff 2>/dev/null && ! git apply -3 $src/patch.diff 2>/dev/null && ! patch -p1 -s --no-backup-if-mismatch < $src/patch.diff; then echo "RESULT applies=no"; cd /; git -C /repo worktree remove --force $wt; exit 1; fi
git reset -q
git diff > $src/patch.rebased.diff
if go build ./... && go build -tags verif ./... ; then b=yes; else b=no; fi
go test -vet=off -count=1 -timeout 25m ./... > /tmp/vs-$id$v.test.log 2>&1
fails=$(grep -E "^(--- FAIL|FAIL)" /tmp/vs-$id$v.test.log | grep -v "TestGenerateProtoFiles\|TestGorumsStability\|internal/testprotos\|^FAIL$" | tr '\n' ';')
bash $src/demo/run.sh $wt > /tmp/vs-$id$v.demo1.log 2>&1; with=$?
git checkout -q -- . ; git clean -fdq
bash $src/demo/run.sh $wt > /tmp/vs-$id$v.demo2.log 2>&1; without=$?
echo "RESULT id=$id$v applies=yes builds=$b suite_fails=[$fails] demo_with_patch_exit=$with demo_without_patch_exit=$without"
tail -5 /tmp/vs-$id$v.demo1.log | cut -c1-300
cd /; git -C /repo worktree remove --force $wt
rm -f /tmp/vs-$id$v.*.log
} > $log 2>&1
grep RESULT $log
