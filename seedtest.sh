#!/bin/bash
# seedtest.sh <patchfile> <PROP> [tier]  — apply a seeded change to /repo, run the check, undo it.
patch="$1"; prop="$2"; tier="${3:-quick}"
cd /repo || exit 2
if [ -n "$(git status --porcelain)" ]; then echo "repo not clean"; exit 2; fi
if ! git apply "$patch" 2>/dev/null; then
  git reset -q --hard
  if ! git apply -3 "$patch" 2>/dev/null || [ -n "$(git diff --name-only --diff-filter=U)" ]; then
    git reset -q --hard
    if ! patch -p1 -s -f --no-backup-if-mismatch < "$patch" >/dev/null 2>&1; then echo "PATCH-DOES-NOT-APPLY"; git reset -q --hard; git clean -fdq; exit 2; fi
  fi
fi
export GOFLAGS=-mod=mod GOPROXY=off GOSUMDB=off GOTOOLCHAIN=local
if ! go build ./... 2>/dev/null; then echo "PATCHED-TREE-DOES-NOT-BUILD"; git reset -q --hard; git clean -fdq; exit 2; fi
git status --short | head -5
out=$(mktemp)
cd /verif && ./check "$prop" "$tier" > "$out" 2>&1
rc=$?
cut -c1-400 "$out" | head -${LINES_MAX:-14}
rm -f "$out"
cd /repo && git reset -q --hard && git clean -fdq
echo "exit=$rc"
