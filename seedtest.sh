#!/bin/bash
# seedtest.sh <patchfile> <PROP> [tier]  — apply a seeded change to /repo, run the check, undo it.
patch="$1"; prop="$2"; tier="${3:-quick}"
cd /repo || exit 2
if [ -n "$(git status --porcelain)" ]; then echo "repo not clean"; exit 2; fi
if ! git apply "$patch" 2>/dev/null; then
  if ! git apply -3 "$patch" 2>/dev/null; then
    if ! patch -p1 -s --no-backup-if-mismatch < "$patch"; then echo "PATCH-DOES-NOT-APPLY"; git checkout -- . ; git clean -fdq; exit 2; fi
  fi
fi
git status --short | head -5
cd /verif && ./check "$prop" "$tier" 2>&1 | cut -c1-400 | head -${LINES_MAX:-14}
rc=${PIPESTATUS[0]}
cd /repo && git reset -q && git checkout -- . && git clean -fdq
echo "exit=$rc"
