#!/bin/bash
# Offline build of the framework from files on disk only.
set -e
cd "$(dirname "$0")"
export GOFLAGS=-mod=mod GOPROXY=off GOSUMDB=off GOTOOLCHAIN=local
mkdir -p build/bin evidence replays
go build -o build/bin/vgen ./cmd/vgen
echo setup ok
