#!/bin/bash
# Rewrites every evidence file from a quick run on the current (unchanged) tree and validates it.
cd /verif
rc=0
for p in C01 C02 C03 C04 C05 C06 C07 C08 C09 C10 C11 C12 C13 C14 C15 C16 C17 C18 C19; do
  VERIF_SEED=1 ./check $p quick > /tmp/regen-$p.log 2>&1 || { echo "$p FAILED: $(head -3 /tmp/regen-$p.log | tr '\n' ' ')"; rc=1; }
done
python3-vt - <<'PY'
import json,jsonschema,glob
es=json.load(open('/root/.vp/EVIDENCE.schema.json')); ms=json.load(open('/root/.vp/MANIFEST.schema.json'))
jsonschema.validate(json.load(open('/verif/MANIFEST.json')),ms)
for f in sorted(glob.glob('/verif/evidence/C*.json')):
    d=json.load(open(f)); jsonschema.validate(d,es)
    assert d.get('violations',0)==0,(f,'violations')
    assert d['tier']=='quick' and d['seed']==1,(f,d['tier'],d['seed'])
print('manifest and',len(glob.glob('/verif/evidence/C*.json')),'evidence files valid')
PY
exit $rc
