// Command vgen drives the code generators without protoc.
//
//	vgen puppet -gorums <plugin> -go <plugin> -out <dir>
package main

import (
	"flag"
	"fmt"
	"os"
	"time"

	"verif/internal/plugin"
	"verif/internal/puppetdesc"

	"google.golang.org/protobuf/types/descriptorpb"
)

func main() {
	if len(os.Args) < 2 {
		fmt.Fprintln(os.Stderr, "usage: vgen puppet ...")
		os.Exit(2)
	}
	switch os.Args[1] {
	case "puppet":
		fs := flag.NewFlagSet("puppet", flag.ExitOnError)
		gorumsBin := fs.String("gorums", "", "protoc-gen-gorums binary")
		goBin := fs.String("go", "", "protoc-gen-go binary")
		out := fs.String("out", "", "output directory")
		fs.Parse(os.Args[2:])
		if err := genPuppet(*gorumsBin, *goBin, *out); err != nil {
			fmt.Fprintln(os.Stderr, "vgen:", err)
			os.Exit(1)
		}
	default:
		fmt.Fprintln(os.Stderr, "unknown sub-command", os.Args[1])
		os.Exit(2)
	}
}

func genPuppet(gorumsBin, goBin, out string) error {
	fd := puppetdesc.File().Proto()
	files := []*descriptorpb.FileDescriptorProto{fd}
	if err := plugin.Validate(files); err != nil {
		return fmt.Errorf("puppet descriptor invalid: %w", err)
	}
	req, err := plugin.Request(files, []string{fd.GetName()}, "paths=source_relative")
	if err != nil {
		return err
	}
	all := map[string]string{}
	for _, bin := range []string{goBin, gorumsBin} {
		res := plugin.Run(bin, req, 30*time.Second, "")
		if res.Exit != 0 || res.Resp == nil || res.Resp.Error != nil {
			return fmt.Errorf("%s: exit=%d err=%q stderr=%s", bin, res.Exit, res.Resp.GetError(), res.Stderr)
		}
		for n, c := range res.Files() {
			all[n] = c
		}
	}
	if len(all) != 2 {
		return fmt.Errorf("expected 2 generated files, got %d", len(all))
	}
	return plugin.WriteFiles(out, all)
}
