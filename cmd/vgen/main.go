// Command vgen drives the code generators without protoc.
//
//	vgen puppet -gorums <plugin> -go <plugin> -out <dir>
package main

import (
	"flag"
	"fmt"
	"os"
	"path/filepath"
	"strconv"
	"time"

	"verif/internal/gencheck"
	"verif/internal/plugin"
	"verif/internal/puppetdesc"
	"verif/internal/report"

	"google.golang.org/protobuf/types/descriptorpb"
)

func main() {
	if len(os.Args) < 2 {
		fmt.Fprintln(os.Stderr, "usage: vgen puppet ...")
		os.Exit(2)
	}
	switch os.Args[1] {
	case "puppet":
		fs := flag.NewFlagSet("puppet", flag.ExitOnError)
		gorumsBin := fs.String("gorums", "", "protoc-gen-gorums binary")
		goBin := fs.String("go", "", "protoc-gen-go binary")
		out := fs.String("out", "", "output directory")
		fs.Parse(os.Args[2:])
		if err := genPuppet(*gorumsBin, *goBin, *out); err != nil {
			fmt.Fprintln(os.Stderr, "vgen:", err)
			os.Exit(1)
		}
	case "check":
		os.Exit(check(os.Args[2], os.Args[3]))
	case "regen":
		// vgen regen <file.pb.go> <param> <outdir>: regenerate the gorums file(s) for a committed .pb.go
		if err := regen(os.Args[2], os.Args[3], os.Args[4]); err != nil {
			fmt.Fprintln(os.Stderr, "vgen:", err)
			os.Exit(1)
		}
	default:
		fmt.Fprintln(os.Stderr, "unknown sub-command", os.Args[1])
		os.Exit(2)
	}
}

func genPuppet(gorumsBin, goBin, out string) error {
	fd := puppetdesc.File().Proto()
	files := []*descriptorpb.FileDescriptorProto{fd}
	if err := plugin.Validate(files); err != nil {
		return fmt.Errorf("puppet descriptor invalid: %w", err)
	}
	req, err := plugin.Request(files, []string{fd.GetName()}, "paths=source_relative")
	if err != nil {
		return err
	}
	all := map[string]string{}
	for _, bin := range []string{goBin, gorumsBin} {
		res := plugin.Run(bin, req, 30*time.Second, "")
		if res.Exit != 0 || res.Resp == nil || res.Resp.Error != nil {
			return fmt.Errorf("%s: exit=%d err=%q stderr=%s", bin, res.Exit, res.Resp.GetError(), res.Stderr)
		}
		for n, c := range res.Files() {
			all[n] = c
		}
	}
	if len(all) != 2 {
		return fmt.Errorf("expected 2 generated files, got %d", len(all))
	}
	return plugin.WriteFiles(out, all)
}

func verifDir() string {
	if d := os.Getenv("VERIF_DIR"); d != "" {
		return d
	}
	return "/verif"
}

func seed() int64 {
	s, err := strconv.ParseInt(os.Getenv("VERIF_SEED"), 10, 64)
	if err != nil {
		return 1
	}
	return s
}

func bins() gencheck.Bins {
	v := verifDir()
	return gencheck.Bins{Gorums: filepath.Join(v, "build/bin/protoc-gen-gorums"), Go: filepath.Join(v, "build/bin/protoc-gen-go"), Repo: "/repo", Verif: v}
}

func check(prop, tier string) int {
	switch prop {
	case "C17":
		r := report.New(prop, tier, seed(), "exploration")
		r.Rule = "every committed *_gorums.pb.go / zorums dev file / template_static.go regenerated with the working-tree plugin from the descriptor embedded in its sibling .pb.go and compared as ASTs (comments stripped); " +
			"client Method literal, RegisterHandler key, runtime entry point and ServerStream flag of every emitted stub compared with the descriptor; behavioural binding conformance on the regenerated puppet service; distinct = file or method"
		gencheck.RunC17Golden(r, bins())
		gencheck.RunC17Synth(r, bins(), tier, seed())
		if veng := os.Getenv("VERIF_VENG"); veng != "" {
			gencheck.MergeChild(r, veng, "C17", tier)
		}
		return r.Finish(verifDir(), 10)
	case "C16":
		r := report.New(prop, tier, seed(), "exploration")
		gencheck.RunC16(r, bins(), tier, seed())
		return r.Finish(verifDir(), 20)
	}
	fmt.Fprintln(os.Stderr, "unknown property", prop)
	return 2
}

func regen(pbgo, param, outdir string) error {
	fd, err := gencheck.ExtractDesc(pbgo)
	if err != nil {
		return err
	}
	b := bins()
	// dependencies living in the repository (not linked): sibling extraction is not needed for the repo's own files
	req, err := plugin.Request([]*descriptorpb.FileDescriptorProto{fd}, []string{fd.GetName()}, param)
	if err != nil {
		return err
	}
	res := plugin.Run(b.Gorums, req, 30*time.Second, "")
	if res.Exit != 0 || res.Resp == nil || res.Resp.Error != nil {
		return fmt.Errorf("plugin: exit=%d %s %s", res.Exit, res.Resp.GetError(), res.Stderr)
	}
	for name, content := range res.Files() {
		p := filepath.Join(outdir, filepath.Base(name))
		if err := os.WriteFile(p, []byte(content), 0o644); err != nil {
			return err
		}
		fmt.Println("wrote", p)
	}
	return nil
}
