// Command veng runs the behavioural engines.
//
//	veng check <PROP> <tier>                       parent: spawns children, merges, verdict
//	veng child <PROP> <tier> <batch> <of> <out>    one child process
package main

import (
	_ "github.com/relab/gorums/benchmark"
	_ "github.com/relab/gorums/tests/config"
	_ "github.com/relab/gorums/tests/correctable"
	_ "github.com/relab/gorums/tests/metadata"
	_ "github.com/relab/gorums/tests/oneway"
	_ "github.com/relab/gorums/tests/tls"
	_ "github.com/relab/gorums/tests/unresponsive"

	"fmt"
	"os"
	"os/exec"
	"path/filepath"
	"regexp"
	"strconv"
	"strings"
	"sync"
	"syscall"
	"time"

	"verif/internal/eng"
	"verif/internal/h"
	"verif/internal/report"
)

type spec struct {
	level    string
	children [2]int // quick, thorough
	floor    [2]int
	timeout  [2]time.Duration // per child
	run      func(*eng.Env)
	nohooks  bool
}

var specs = map[string]spec{}

func register(id, level string, cq, ct, fq, ft int, tq, tt time.Duration, run func(*eng.Env)) {
	specs[id] = spec{level: level, children: [2]int{cq, ct}, floor: [2]int{fq, ft}, timeout: [2]time.Duration{tq, tt}, run: run}
}

func init() {
	register("C01", "exploration", 2, 8, 500, 5000, 4*time.Minute, 30*time.Minute, eng.RunGated)
	register("C02", "exploration", 2, 8, 500, 5000, 4*time.Minute, 30*time.Minute, eng.RunGated)
	register("C03", "exploration", 4, 16, 100, 2000, 5*time.Minute, 40*time.Minute, eng.RunFifo)
	register("C04", "exploration", 4, 16, 20, 500, 5*time.Minute, 40*time.Minute, eng.RunHandlers)
	register("C05", "exploration", 4, 16, 4, 40, 8*time.Minute, 60*time.Minute, eng.RunSoakAttribution)
	register("C06", "exploration", 4, 16, 100, 2000, 5*time.Minute, 40*time.Minute, eng.RunPerNode)
	register("C07", "fault_enumeration", 4, 16, 20, 300, 8*time.Minute, 60*time.Minute, eng.RunFaults)
	register("C08", "exploration", 4, 16, 50, 1000, 8*time.Minute, 60*time.Minute, eng.RunCtxEnd)
	register("C09", "exploration", 4, 16, 40, 500, 6*time.Minute, 40*time.Minute, eng.RunUsable)
	register("C10", "fault_enumeration", 4, 16, 15, 300, 10*time.Minute, 60*time.Minute, eng.RunRestart)
	register("C11", "exploration", 2, 8, 300, 5000, 4*time.Minute, 30*time.Minute, eng.RunCorr)
	register("C19", "exploration", 2, 8, 1000, 100000, 5*time.Minute, 30*time.Minute, eng.RunSorters)
	register("C14", "exploration", 2, 8, 500, 20000, 5*time.Minute, 30*time.Minute, eng.RunConfigs)
	register("C12", "fault_enumeration", 4, 16, 20, 500, 10*time.Minute, 60*time.Minute, eng.RunClose)
	register("C13", "exploration", 2, 8, 5000, 100000, 5*time.Minute, 30*time.Minute, eng.RunCodec)
	register("C15", "exploration", 3, 6, 6, 30, 12*time.Minute, 60*time.Minute, eng.RunRaces)
	register("C17", "exploration", 1, 1, 10, 10, 5*time.Minute, 10*time.Minute, eng.RunBinding)
	register("C18", "exploration", 4, 16, 4, 40, 8*time.Minute, 60*time.Minute, eng.RunResidue)
}

func verifDir() string {
	if d := os.Getenv("VERIF_DIR"); d != "" {
		return d
	}
	return "/verif"
}

func seed() int64 {
	s, err := strconv.ParseInt(os.Getenv("VERIF_SEED"), 10, 64)
	if err != nil {
		return 1
	}
	return s
}

func tierIdx(t string) int {
	if t == "thorough" {
		return 1
	}
	return 0
}

func main() {
	if len(os.Args) < 4 {
		fmt.Fprintln(os.Stderr, "usage: veng check|child <PROP> <tier> ...")
		os.Exit(2)
	}
	prop, tier := os.Args[2], os.Args[3]
	if os.Args[1] == "serve" {
		n, _ := strconv.Atoi(os.Args[3])
		eng.Serve(n)
		return
	}
	sp, ok := specs[prop]
	if !ok {
		fmt.Fprintln(os.Stderr, "unknown property", prop)
		os.Exit(2)
	}
	switch os.Args[1] {
	case "child":
		batch, _ := strconv.Atoi(os.Args[4])
		of, _ := strconv.Atoi(os.Args[5])
		child(prop, tier, sp, batch, of, os.Args[6])
	case "check":
		os.Exit(parent(prop, tier, sp))
	default:
		os.Exit(2)
	}
}

func child(prop, tier string, sp spec, batch, of int, out string) {
	r := report.New(prop, tier, seed(), sp.level)
	e := &eng.Env{R: r, Prop: prop, Tier: tier, Seed: seed(), Batch: batch, Of: of, W: 4 * time.Second, Race: raceEnabled}
	if tier == "thorough" {
		e.W = 8 * time.Second
	}
	if !raceEnabled {
		e.Hooks = h.InstallHooks()
	}
	// partial results, in case the watchdog ends this process
	stopSave := make(chan struct{})
	go func() {
		for {
			select {
			case <-stopSave:
				return
			case <-time.After(5 * time.Second):
				r.Save(out + ".partial")
			}
		}
	}()
	sp.run(e)
	close(stopSave)
	if e.Hooks != nil {
		for p, n := range e.Hooks.Points() {
			r.Count("hook."+p, n)
		}
	}
	if err := r.Save(out); err != nil {
		fmt.Fprintln(os.Stderr, "save:", err)
		os.Exit(3)
	}
}

var panicRe = regexp.MustCompile(`(?m)^(panic: .*|fatal error: .*)$`)

func parent(prop, tier string, sp spec) int {
	ti := tierIdx(tier)
	vd := verifDir()
	runDir := filepath.Join(vd, "build", "run", fmt.Sprintf("%s-%s-%d", prop, tier, os.Getpid()))
	os.MkdirAll(runDir, 0o755)
	defer os.RemoveAll(runDir)
	total := report.New(prop, tier, seed(), sp.level)
	n := sp.children[ti]
	var wg sync.WaitGroup
	var mu sync.Mutex
	infra := 0
	for b := 0; b < n; b++ {
		wg.Add(1)
		go func(b int) {
			defer wg.Done()
			out := filepath.Join(runDir, fmt.Sprintf("res-%d.json", b))
			logp := filepath.Join(runDir, fmt.Sprintf("log-%d.txt", b))
			lf, _ := os.Create(logp)
			cmd := exec.Command(os.Args[0], "child", prop, tier, strconv.Itoa(b), strconv.Itoa(n), out)
			cmd.Stdout, cmd.Stderr = lf, lf
			cmd.Env = append(os.Environ(), "GOTRACEBACK=all")
			if prop == "C15" {
				cmd.Env = append(cmd.Env, "GORACE=halt_on_error=0 exitcode=0 history_size=5 log_path="+filepath.Join(runDir, fmt.Sprintf("race-%d", b)))
			}
			if err := cmd.Start(); err != nil {
				mu.Lock()
				infra++
				mu.Unlock()
				return
			}
			done := make(chan error, 1)
			go func() { done <- cmd.Wait() }()
			var err error
			timedOut := false
			select {
			case err = <-done:
			case <-time.After(sp.timeout[ti]):
				timedOut = true
				cmd.Process.Signal(syscall.SIGQUIT)
				select {
				case err = <-done:
				case <-time.After(10 * time.Second):
					cmd.Process.Kill()
					err = <-done
				}
			}
			lf.Close()
			mu.Lock()
			defer mu.Unlock()
			if r, lerr := report.Load(out); lerr == nil && err == nil {
				total.Merge(r)
				return
			}
			logb, _ := os.ReadFile(logp)
			logs := string(logb)
			keep := filepath.Join(vd, "replays", fmt.Sprintf("%s-%d-child%d.log", prop, seed(), b))
			os.MkdirAll(filepath.Dir(keep), 0o755)
			if len(logs) > 2<<20 {
				logs = logs[:2<<20]
			}
			os.WriteFile(keep, []byte(logs), 0o644)
			if timedOut {
				total.Inconc(fmt.Sprintf("child %d hit the wall-clock watchdog (log: %s)", b, keep))
				if pr, perr := report.Load(out + ".partial"); perr == nil {
					// what the child had observed up to 5 s before it was stopped still counts
					total.Merge(pr)
					if len(pr.Violations) > 0 {
						return
					}
				}
				infra++
				return
			}
			if m := panicRe.FindString(logs); m != "" && strings.Contains(logs, "github.com/relab/gorums") {
				sig := "crash:" + normalize(m)
				total.Violate(sig, "process crashed inside the library: "+m, map[string]any{"log": keep})
				return
			}
			total.Inconc(fmt.Sprintf("child %d failed: %v (log: %s)", b, err, keep))
			infra++
		}(b)
	}
	wg.Wait()
	if prop == "C15" {
		harnessRaces := 0
		files, _ := filepath.Glob(filepath.Join(runDir, "race-*"))
		seen := map[string]int{}
		nrep := 0
		for _, f := range files {
			lb, _ := os.ReadFile(f)
			for _, rr := range eng.ParseRaces(string(lb)) {
				nrep++
				if rr.InTest {
					harnessRaces++
					keep := filepath.Join(vd, "replays", fmt.Sprintf("C15-harness-race-%d.txt", harnessRaces))
					os.WriteFile(keep, []byte(rr.Text), 0o644)
					continue
				}
				if !rr.InLib {
					total.Count("race_reports_outside_library", 1)
					continue
				}
				seen[rr.Sig]++
				if seen[rr.Sig] == 1 {
					total.Violate("race:"+rr.Sig, "data race inside the library: "+rr.Sig, map[string]any{"report": rr.Text})
				}
			}
		}
		total.Count("race_report_blocks", int64(nrep))
		total.Count("race_log_files", int64(len(files)))
		for sig, n := range seen {
			total.Count("race."+sig, int64(n))
		}
		if !raceEnabled {
			fmt.Println("INFRA: C15 must run in the -race build (veng-race)")
			infra++
		}
		if harnessRaces > 0 {
			fmt.Printf("INFRA: %d race reports have a harness frame innermost (harness bug; see replays/C15-harness-race-*.txt)\n", harnessRaces)
			infra++
		}
	}
	code := total.Finish(vd, sp.floor[ti])
	if code == 0 && infra > 0 {
		fmt.Printf("INFRA: %d child process(es) failed without a verdict\n", infra)
		return 3
	}
	return code
}

var numRe = regexp.MustCompile(`0x[0-9a-f]+|\d+`)

func normalize(s string) string {
	s = numRe.ReplaceAllString(s, "N")
	if len(s) > 160 {
		s = s[:160]
	}
	return s
}
