#!/bin/bash
# Runs the repository's own test suite with the verif guard OFF (no -tags verif).
export GOFLAGS=-mod=mod GOPROXY=off GOSUMDB=off GOTOOLCHAIN=local
cd /repo && exec go test -json -vet=off -count=1 -timeout 25m ./...
