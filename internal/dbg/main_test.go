package dbg
import (
	"context"; "testing"; "time"; "fmt"
	"google.golang.org/grpc"; "google.golang.org/grpc/credentials/insecure"
	"google.golang.org/protobuf/proto"; "google.golang.org/protobuf/encoding/protowire"
	"github.com/relab/gorums/ordering"
	"os"
)
type passCodec struct{}
func (passCodec) Marshal(v any) ([]byte, error) { return v.([]byte), nil }
func (passCodec) Unmarshal(b []byte, v any) error { *(v.(*[]byte)) = append([]byte(nil), b...); return nil }
func (passCodec) Name() string { return "gorums" }
func TestX(t *testing.T) {
	addr := os.Getenv("ADDR")
	conn, err := grpc.Dial(addr, grpc.WithTransportCredentials(insecure.NewCredentials()))
	if err != nil { t.Fatal(err) }
	mdb, _ := proto.Marshal(&ordering.Metadata{MessageID: 5, Method: "google.protobuf.Any"})
	b := protowire.AppendBytes(nil, mdb); b = protowire.AppendBytes(b, []byte{})
	ctx, cancel := context.WithTimeout(context.Background(), 2*time.Second); defer cancel()
	st, err := conn.NewStream(ctx, &grpc.StreamDesc{ServerStreams: true, ClientStreams: true}, "/ordering.Gorums/NodeStream", grpc.ForceCodec(passCodec{}))
	fmt.Println("newstream", err)
	fmt.Println("send", st.SendMsg(b))
	st.CloseSend()
	var reply []byte
	fmt.Println("recv", st.RecvMsg(&reply))
}
