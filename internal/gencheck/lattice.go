package gencheck

import (
	"fmt"
	"math/rand"
	"strings"

	"verif/internal/svcdesc"

	"google.golang.org/protobuf/types/descriptorpb"
)

// Case is one synthesized generator input.
type Case struct {
	ID      string
	Class   string // "legal", "illegal:<why>", "tricky:<why>"
	Files   []svcdesc.File
	Gen     string   // file to generate
	GenAlso []string // further files to generate in the same request
	Param   string
	Desc    string // human-readable summary
	expect  string // "accept" | "diagnose" | "either"
}

// Expect returns the expected branch.
func (c *Case) Expect() string { return c.expect }

// Protos returns the descriptors.
func (c *Case) Protos() []*descriptorpb.FileDescriptorProto {
	var out []*descriptorpb.FileDescriptorProto
	for _, f := range c.Files {
		out = append(out, f.Proto())
	}
	return out
}

var (
	u64 = descriptorpb.FieldDescriptorProto_TYPE_UINT64
	str = descriptorpb.FieldDescriptorProto_TYPE_STRING
)

type callKind int

const (
	kRPC callKind = iota
	kUnicast
	kMulticast
	kQC
	kAsync
	kCorr
	kCorrStream
)

func (k callKind) String() string {
	return [...]string{"rpc", "unicast", "multicast", "quorumcall", "async", "correctable", "correctable-stream"}[k]
}

func baseOpts(k callKind) svcdesc.Opts {
	switch k {
	case kUnicast:
		return svcdesc.Opts{Unicast: true}
	case kMulticast:
		return svcdesc.Opts{Multicast: true}
	case kQC:
		return svcdesc.Opts{Quorumcall: true}
	case kAsync:
		return svcdesc.Opts{Quorumcall: true, Async: true}
	case kCorr, kCorrStream:
		return svcdesc.Opts{Correctable: true}
	}
	return svcdesc.Opts{}
}

func pnAllowed(k callKind) bool {
	return k == kMulticast || k == kQC || k == kAsync || k == kCorr || k == kCorrStream
}
func customAllowed(k callKind) bool { return k == kQC || k == kAsync || k == kCorr || k == kCorrStream }

var plainMethodNames = []string{"Read", "Write", "ReadState", "writeState", "read_state", "Get2", "Put_3", "Type", "Func", "Range", "Select", "Watch", "Done", "Get",
	"String", "Reset", "Ping", "Commit", "Prepare", "Accept", "Learn", "Echo", "Sync", "Flush", "Lookup", "Store", "Fetch", "Push", "Pull", "Vote"}
var plainMsgNames = []string{"State", "Request", "Response", "ReadRequest", "write_response", "Rep2", "Value", "Ack", "Vote", "Ballot", "Entry", "Item", "Blob", "Key", "Pair", "Result"}

func msg(name string) svcdesc.Message {
	return svcdesc.Message{Name: name, Fields: []svcdesc.Field{{Name: "value", Number: 1, Type: str}, {Name: "stamp", Number: 2, Type: u64}}}
}

type builder struct {
	rng   *rand.Rand
	id    string
	pkg   string
	gopkg string
	f     svcdesc.File
	dep   *svcdesc.File
	msgs  map[string]bool
	meths map[string]bool
}

func newBuilder(rng *rand.Rand, id string) *builder {
	pkgs := []string{"svc", "my_pkg", "pkg2", "storage", "a.b", "proto3pkg"}
	b := &builder{rng: rng, id: id, pkg: pkgs[rng.Intn(len(pkgs))], gopkg: "verif/build/c16/" + id, msgs: map[string]bool{}, meths: map[string]bool{}}
	b.f = svcdesc.File{Name: id + "/svc.proto", Package: b.pkg, GoPackage: b.gopkg, Deps: []string{"gorums.proto"}}
	return b
}

func (b *builder) addMsg(name string) string {
	if !b.msgs[name] {
		b.msgs[name] = true
		b.f.Messages = append(b.f.Messages, msg(name))
	}
	return "." + b.pkg + "." + name
}

func (b *builder) freshMsg() string {
	for {
		n := plainMsgNames[b.rng.Intn(len(plainMsgNames))]
		if b.rng.Intn(3) == 0 {
			n = fmt.Sprintf("%s%d", n, b.rng.Intn(9))
		}
		// avoid Go-name collisions between spellings
		g := goCamel(n)
		dup := false
		for m := range b.msgs {
			if goCamel(m) == g && m != n {
				dup = true
			}
		}
		if !dup {
			return n
		}
	}
}

func (b *builder) useEmpty() string {
	for _, d := range b.f.Deps {
		if d == "google/protobuf/empty.proto" {
			return ".google.protobuf.Empty"
		}
	}
	b.f.Deps = append(b.f.Deps, "google/protobuf/empty.proto")
	return ".google.protobuf.Empty"
}

func (b *builder) useImported() string {
	if b.dep == nil {
		b.dep = &svcdesc.File{Name: b.id + "/dep/dep.proto", Package: b.pkg + "dep", GoPackage: b.gopkg + "/dep",
			Messages: []svcdesc.Message{msg("Shared"), msg("Other")}}
		b.f.Deps = append(b.f.Deps, b.dep.Name)
	}
	return "." + b.dep.Package + "." + []string{"Shared", "Other"}[b.rng.Intn(2)]
}

func (b *builder) methodName() string {
	for i := 0; ; i++ {
		n := plainMethodNames[b.rng.Intn(len(plainMethodNames))]
		if i > 20 {
			n = fmt.Sprintf("%s%d", n, i)
		}
		g := goCamel(n)
		if !b.meths[g] {
			b.meths[g] = true
			return n
		}
	}
}

// legalMethod adds a method of kind k with random legal options and message types.
func (b *builder) legalMethod(k callKind) svcdesc.Method {
	o := baseOpts(k)
	if pnAllowed(k) && b.rng.Intn(3) == 0 {
		o.PerNodeArg = true
	}
	pick := func(oneway bool) string {
		switch x := b.rng.Intn(10); {
		case x < 5:
			return b.addMsg(b.freshMsg())
		case x < 7 && len(b.f.Messages) > 0:
			return "." + b.pkg + "." + b.f.Messages[b.rng.Intn(len(b.f.Messages))].Name
		case x < 8 && (oneway || b.rng.Intn(4) == 0):
			return b.useEmpty() // google.protobuf.Empty as request or response (the repository's own zorums.proto does this for every call type)
		case x < 9:
			return b.useImported()
		}
		return b.addMsg(b.freshMsg())
	}
	in := pick(false)
	out := pick(k == kUnicast || k == kMulticast)
	if customAllowed(k) && b.rng.Intn(3) == 0 && strings.HasPrefix(out, "."+b.pkg+".") {
		// custom return type: a message of the same file as the response type
		c := b.freshMsg()
		b.addMsg(c)
		o.Custom = goCamel(c)
	}
	// a client stream is legal exactly for multicast (doc: "is required for client-server stream methods")
	return svcdesc.Method{Name: b.methodName(), In: in, Out: out, Opts: o, ServerStream: k == kCorrStream, ClientStream: k == kMulticast && b.rng.Intn(3) == 0}
}

func (b *builder) build(class, expect, desc string) Case {
	files := []svcdesc.File{b.f}
	if b.dep != nil {
		files = append(files, *b.dep)
	}
	return Case{ID: b.id, Class: class, Files: files, Gen: b.f.Name, Param: "paths=source_relative", Desc: desc, expect: expect}
}

func describe(ms []svcdesc.Method) string {
	var parts []string
	for _, m := range ms {
		o := m.Opts
		var t []string
		for _, x := range []struct {
			b bool
			n string
		}{{o.Unicast, "unicast"}, {o.Multicast, "multicast"}, {o.Quorumcall, "quorumcall"}, {o.Async, "async"}, {o.Correctable, "correctable"}, {o.PerNodeArg, "per_node_arg"}} {
			if x.b {
				t = append(t, x.n)
			}
		}
		if o.Custom != "" {
			t = append(t, "custom="+o.Custom)
		}
		for _, f := range o.False {
			t = append(t, f+"=false")
		}
		if m.ServerStream {
			t = append(t, "server-stream")
		}
		if m.ClientStream {
			t = append(t, "client-stream")
		}
		parts = append(parts, fmt.Sprintf("%s(%s)->%s[%s]", m.Name, m.In, m.Out, strings.Join(t, ",")))
	}
	return strings.Join(parts, "; ")
}

// LegalCase builds a documented-legal service with 1..12 methods.
func LegalCase(rng *rand.Rand, id string) Case {
	b := newBuilder(rng, id)
	n := 1 + rng.Intn(12)
	var ms []svcdesc.Method
	for i := 0; i < n; i++ {
		ms = append(ms, b.legalMethod(callKind(rng.Intn(7))))
	}
	svcNames := []string{"Storage", "svc", "My_Service", "KV2", "Paxos"}
	sn := svcNames[rng.Intn(len(svcNames))]
	for b.msgs[sn] {
		sn += "X"
	}
	b.f.Services = []svcdesc.Service{{Name: sn, Methods: ms}}
	return b.build("legal", "accept", describe(ms))
}

// IllegalCases returns the documented illegal inputs (each must be diagnosed).
func IllegalCases(rng *rand.Rand, prefix string) []Case {
	var out []Case
	n := 0
	mk := func(why string, mut func(b *builder) []svcdesc.Method) {
		n++
		b := newBuilder(rng, fmt.Sprintf("%s%d", prefix, n))
		ms := mut(b)
		if b.f.Services == nil {
			b.f.Services = []svcdesc.Service{{Name: "Svc", Methods: ms}}
		}
		out = append(out, b.build("illegal:"+why, "diagnose", describe(ms)))
	}
	rq := func(b *builder) (string, string) { return b.addMsg("Request"), b.addMsg("Response") }
	for _, res := range []string{"Configuration", "Manager", "Node", "QuorumSpec"} {
		res := res
		mk("reserved-message-"+res, func(b *builder) []svcdesc.Method {
			in, out := rq(b)
			b.addMsg(res)
			return []svcdesc.Method{{Name: "Read", In: in, Out: out, Opts: svcdesc.Opts{Quorumcall: true}}}
		})
	}
	mk("two-services", func(b *builder) []svcdesc.Method {
		in, out := rq(b)
		m := []svcdesc.Method{{Name: "Read", In: in, Out: out, Opts: svcdesc.Opts{Quorumcall: true}}}
		b.f.Services = []svcdesc.Service{{Name: "A", Methods: m}, {Name: "B", Methods: []svcdesc.Method{{Name: "Write", In: in, Out: out, Opts: svcdesc.Opts{Multicast: true}}}}}
		return m
	})
	mk("async-without-quorumcall", func(b *builder) []svcdesc.Method {
		in, out := rq(b)
		return []svcdesc.Method{{Name: "Read", In: in, Out: out, Opts: svcdesc.Opts{Async: true}}}
	})
	mk("async-without-quorumcall-beside-valid", func(b *builder) []svcdesc.Method {
		in, out := rq(b)
		return []svcdesc.Method{{Name: "Ok", In: in, Out: out, Opts: svcdesc.Opts{Quorumcall: true}}, {Name: "Read", In: in, Out: out, Opts: svcdesc.Opts{Async: true}}}
	})
	mk("client-stream-without-multicast", func(b *builder) []svcdesc.Method {
		in, out := rq(b)
		return []svcdesc.Method{{Name: "Read", In: in, Out: out, ClientStream: true, Opts: svcdesc.Opts{Quorumcall: true}}}
	})
	mk("client-stream-plain", func(b *builder) []svcdesc.Method {
		in, out := rq(b)
		return []svcdesc.Method{{Name: "Ok", In: in, Out: out, Opts: svcdesc.Opts{Quorumcall: true}}, {Name: "Read", In: in, Out: out, ClientStream: true}}
	})
	mk("server-stream-without-correctable", func(b *builder) []svcdesc.Method {
		in, out := rq(b)
		return []svcdesc.Method{{Name: "Read", In: in, Out: out, ServerStream: true, Opts: svcdesc.Opts{Quorumcall: true}}}
	})
	mk("server-stream-plain", func(b *builder) []svcdesc.Method {
		in, out := rq(b)
		return []svcdesc.Method{{Name: "Ok", In: in, Out: out, Opts: svcdesc.Opts{Quorumcall: true}}, {Name: "Read", In: in, Out: out, ServerStream: true}}
	})
	mk("correctable-with-client-stream", func(b *builder) []svcdesc.Method {
		in, out := rq(b)
		return []svcdesc.Method{{Name: "Read", In: in, Out: out, ClientStream: true, Opts: svcdesc.Opts{Correctable: true}}}
	})
	combos := []struct {
		n string
		o svcdesc.Opts
	}{
		{"quorumcall+multicast", svcdesc.Opts{Quorumcall: true, Multicast: true}},
		{"quorumcall+unicast", svcdesc.Opts{Quorumcall: true, Unicast: true}},
		{"quorumcall+correctable", svcdesc.Opts{Quorumcall: true, Correctable: true}},
		{"multicast+unicast", svcdesc.Opts{Multicast: true, Unicast: true}},
		{"correctable+multicast", svcdesc.Opts{Correctable: true, Multicast: true}},
		{"correctable+unicast", svcdesc.Opts{Correctable: true, Unicast: true}},
		{"correctable+async", svcdesc.Opts{Correctable: true, Async: true}},
		{"correctable+quorumcall+async", svcdesc.Opts{Correctable: true, Quorumcall: true, Async: true}},
	}
	for _, c := range combos {
		c := c
		mk("combined-call-types:"+c.n, func(b *builder) []svcdesc.Method {
			in, out := rq(b)
			return []svcdesc.Method{{Name: "Read", In: in, Out: out, Opts: c.o}}
		})
	}
	na := []struct {
		n string
		o svcdesc.Opts
	}{
		{"per_node_arg-on-rpc", svcdesc.Opts{PerNodeArg: true}},
		{"per_node_arg-on-unicast", svcdesc.Opts{Unicast: true, PerNodeArg: true}},
		{"custom_return_type-on-rpc", svcdesc.Opts{Custom: "Response"}},
		{"custom_return_type-on-unicast", svcdesc.Opts{Unicast: true, Custom: "Response"}},
		{"custom_return_type-on-multicast", svcdesc.Opts{Multicast: true, Custom: "Response"}},
	}
	for _, c := range na {
		c := c
		mk("option-not-applicable:"+c.n, func(b *builder) []svcdesc.Method {
			in, out := rq(b)
			return []svcdesc.Method{{Name: "Read", In: in, Out: out, Opts: c.o}}
		})
	}
	return out
}

// TrickyCases returns inputs whose identifiers collide with generated or static
// identifiers: the generator may reject them or emit code that compiles, never broken code.
func TrickyCases(rng *rand.Rand, prefix string) []Case {
	var out []Case
	n := 0
	mk := func(why string, mut func(b *builder) []svcdesc.Method) {
		n++
		b := newBuilder(rng, fmt.Sprintf("%s%d", prefix, n))
		ms := mut(b)
		b.f.Services = []svcdesc.Service{{Name: "Svc", Methods: ms}}
		out = append(out, b.build("tricky:"+why, "either", describe(ms)))
	}
	// (lower-case and snake-case spellings become the reserved Go identifiers Node, Manager, Configuration, QuorumSpec, NewManager, ...)
	for _, mn := range []string{"NewManager", "ConfigurationFromRaw", "AsyncRep", "CorrectableRep", "CorrectableStreamRep", "internalRep", "InternalRep", "Svc2", "RegisterSvcServer", "Message", "Server", "Context",
		"node", "manager", "configuration", "quorumSpec", "quorum_spec", "new_manager", "newManager", "configuration_from_raw"} {
		mn := mn
		mk("message-named-"+mn, func(b *builder) []svcdesc.Method {
			in := b.addMsg("Req")
			out := b.addMsg("Rep")
			b.addMsg(mn)
			return []svcdesc.Method{
				{Name: "A", In: in, Out: out, Opts: svcdesc.Opts{Quorumcall: true, Async: true}},
				{Name: "C", In: in, Out: out, Opts: svcdesc.Opts{Correctable: true}},
				{Name: "S", In: in, Out: out, Opts: svcdesc.Opts{Correctable: true}, ServerStream: true},
				{Name: "Q", In: in, Out: out, Opts: svcdesc.Opts{Quorumcall: true}},
			}
		})
	}
	for _, meth := range []string{"Nodes", "And", "Except", "NodeIDs", "Size", "Equal", "ID", "Address", "Close", "NewConfiguration", "QuorumCall", "RPCCall", "Unicast", "Multicast"} {
		for _, k := range []callKind{kQC, kRPC, kUnicast, kMulticast} {
			meth, k := meth, k
			mk(fmt.Sprintf("method-named-%s-as-%s", meth, k), func(b *builder) []svcdesc.Method {
				in := b.addMsg("Req")
				out := b.addMsg("Rep")
				return []svcdesc.Method{{Name: meth, In: in, Out: out, Opts: baseOpts(k)}}
			})
		}
	}
	mk("custom-return-type-unknown-message", func(b *builder) []svcdesc.Method {
		in := b.addMsg("Req")
		out := b.addMsg("Rep")
		return []svcdesc.Method{{Name: "Q", In: in, Out: out, Opts: svcdesc.Opts{Quorumcall: true, Custom: "NoSuchMessage"}}}
	})
	mk("custom-return-type-qualified", func(b *builder) []svcdesc.Method {
		in := b.addMsg("Req")
		out := b.addMsg("Rep")
		b.addMsg("Agg")
		return []svcdesc.Method{{Name: "Q", In: in, Out: out, Opts: svcdesc.Opts{Quorumcall: true, Custom: b.pkg + ".Agg"}}}
	})
	mk("same-custom-type-for-async-and-correctable", func(b *builder) []svcdesc.Method {
		in := b.addMsg("Req")
		out := b.addMsg("Rep")
		b.addMsg("Agg")
		return []svcdesc.Method{
			{Name: "A", In: in, Out: out, Opts: svcdesc.Opts{Quorumcall: true, Async: true, Custom: "Agg"}},
			{Name: "B", In: in, Out: b.addMsg("Rep2"), Opts: svcdesc.Opts{Quorumcall: true, Async: true, Custom: "Agg"}},
			{Name: "C", In: in, Out: out, Opts: svcdesc.Opts{Correctable: true, Custom: "Agg"}},
		}
	})
	// options that are present with the explicit value false (undocumented: either branch, but never broken or unstable output)
	for _, k := range []callKind{kRPC, kUnicast, kMulticast, kQC, kAsync, kCorr, kCorrStream} {
		for _, off := range []string{"rpc", "unicast", "multicast", "quorumcall", "correctable", "async", "per_node_arg"} {
			k, off := k, off
			mk(fmt.Sprintf("explicit-false-%s-on-%s", off, k), func(b *builder) []svcdesc.Method {
				m := b.legalMethod(k)
				m.Opts.False = []string{off}
				switch off { // (an option cannot be both true and false)
				case "unicast":
					m.Opts.Unicast = false
				case "multicast":
					m.Opts.Multicast = false
				case "quorumcall":
					m.Opts.Quorumcall = false
				case "correctable":
					m.Opts.Correctable = false
				case "async":
					m.Opts.Async = false
				case "per_node_arg":
					m.Opts.PerNodeArg = false
				case "rpc":
					m.Opts.RPC = false
				}
				in := b.addMsg("Req")
				out := b.addMsg("Rep")
				return []svcdesc.Method{m, {Name: "Plain", In: in, Out: out, Opts: svcdesc.Opts{Quorumcall: true}}}
			})
		}
	}
	for _, sn := range []string{"Node", "Manager", "Configuration", "QuorumSpec", "node", "manager", "NewManager", "ConfigurationFromRaw", "Server", "Message"} {
		sn := sn
		n++
		b := newBuilder(rng, fmt.Sprintf("%s%d", prefix, n))
		in, rep := b.addMsg("Req"), b.addMsg("Rep")
		ms := []svcdesc.Method{
			{Name: "Q", In: in, Out: rep, Opts: svcdesc.Opts{Quorumcall: true}},
			{Name: "A", In: in, Out: rep, Opts: svcdesc.Opts{Quorumcall: true, Async: true}},
			{Name: "M", In: in, Out: b.addMsg("Nothing"), Opts: svcdesc.Opts{Multicast: true}},
		}
		b.f.Services = []svcdesc.Service{{Name: sn, Methods: ms}}
		out = append(out, b.build("tricky:service-named-"+sn, "either", describe(ms)))
	}
	// a local message and an imported message with the same name, both the response of a call type with a promise object
	for v := 0; v < 3; v++ {
		n++
		b := newBuilder(rng, fmt.Sprintf("%s%d", prefix, n))
		b.dep = &svcdesc.File{Name: b.id + "/dep/dep.proto", Package: b.pkg + "dep", GoPackage: b.gopkg + "/dep", Messages: []svcdesc.Message{msg("Response"), msg("Request")}}
		b.f.Deps = append(b.f.Deps, b.dep.Name)
		in, rep := b.addMsg("Request"), b.addMsg("Response")
		drep := "." + b.dep.Package + ".Response"
		var ms []svcdesc.Method
		switch v {
		case 0:
			ms = []svcdesc.Method{{Name: "A", In: in, Out: rep, Opts: svcdesc.Opts{Quorumcall: true, Async: true}}, {Name: "B", In: in, Out: drep, Opts: svcdesc.Opts{Quorumcall: true, Async: true}}}
		case 1:
			ms = []svcdesc.Method{{Name: "A", In: in, Out: drep, Opts: svcdesc.Opts{Correctable: true}}, {Name: "B", In: in, Out: rep, Opts: svcdesc.Opts{Correctable: true}}}
		default:
			ms = []svcdesc.Method{{Name: "A", In: in, Out: rep, Opts: svcdesc.Opts{Correctable: true}, ServerStream: true}, {Name: "B", In: in, Out: drep, Opts: svcdesc.Opts{Correctable: true}, ServerStream: true},
				{Name: "Q", In: in, Out: drep, Opts: svcdesc.Opts{Quorumcall: true}}, {Name: "Q2", In: in, Out: rep, Opts: svcdesc.Opts{Quorumcall: true}}}
		}
		b.f.Services = []svcdesc.Service{{Name: "Svc", Methods: ms}}
		out = append(out, b.build("tricky:same-named-local-and-imported-response", "either", describe(ms)))
	}
	// a second file of the same Go package, without services, that holds a message with a reserved name (or another message)
	for _, mn := range []string{"Manager", "Node", "Configuration", "QuorumSpec", "node", "Harmless"} {
		n++
		b := newBuilder(rng, fmt.Sprintf("%s%d", prefix, n))
		b.dep = &svcdesc.File{Name: b.id + "/types.proto", Package: b.pkg, GoPackage: b.gopkg, Messages: []svcdesc.Message{msg(mn), msg("Payload")}}
		b.f.Deps = append(b.f.Deps, b.dep.Name)
		in := b.addMsg("Req")
		pay := "." + b.pkg + ".Payload"
		ms := []svcdesc.Method{{Name: "Q", In: in, Out: pay, Opts: svcdesc.Opts{Quorumcall: true}}, {Name: "M", In: pay, Out: b.addMsg("Nothing"), Opts: svcdesc.Opts{Multicast: true}}}
		b.f.Services = []svcdesc.Service{{Name: "Svc", Methods: ms}}
		c := b.build("tricky:message-named-"+mn+"-in-a-second-file-of-the-package", "either", describe(ms))
		c.GenAlso = []string{b.dep.Name}
		out = append(out, c)
	}
	mk("only-plain-rpc", func(b *builder) []svcdesc.Method {
		in := b.addMsg("Req")
		out := b.addMsg("Rep")
		return []svcdesc.Method{{Name: "Only", In: in, Out: out}}
	})
	mk("only-oneway-imported-empty", func(b *builder) []svcdesc.Method {
		in := b.addMsg("Req")
		return []svcdesc.Method{{Name: "U", In: in, Out: b.useEmpty(), Opts: svcdesc.Opts{Unicast: true}}, {Name: "M", In: in, Out: b.useEmpty(), Opts: svcdesc.Opts{Multicast: true}}}
	})
	mk("imported-response-quorumcall", func(b *builder) []svcdesc.Method {
		in := b.addMsg("Req")
		return []svcdesc.Method{{Name: "Q", In: in, Out: b.useImported(), Opts: svcdesc.Opts{Quorumcall: true}},
			{Name: "A", In: b.useImported(), Out: b.useImported(), Opts: svcdesc.Opts{Quorumcall: true, Async: true}},
			{Name: "C", In: in, Out: b.useImported(), Opts: svcdesc.Opts{Correctable: true}, ServerStream: true}}
	})
	return out
}

// ImportNameCases returns documented-legal definitions whose message types are imported from a Go package whose name equals
// the name of a package the generated code itself imports (fmt, encoding, gorums, context, grpc, ...). The generator must keep
// its own references and the imported types apart (protogen renames one of the two imports).
func ImportNameCases(rng *rand.Rand, prefix string) []Case {
	var out []Case
	n := 0
	for _, pn := range []string{"fmt", "encoding", "gorums", "context", "grpc", "ordering", "protoreflect", "codes", "status", "proto"} {
		for v := 0; v < 2; v++ {
			n++
			b := newBuilder(rng, fmt.Sprintf("%s%d", prefix, n))
			b.dep = &svcdesc.File{Name: b.id + "/" + pn + "/dep.proto", Package: b.pkg + "dep", GoPackage: b.gopkg + "/" + pn,
				Messages: []svcdesc.Message{msg("Shared"), msg("Other")}}
			b.f.Deps = append(b.f.Deps, b.dep.Name)
			in := b.addMsg("Req")
			imp := func() string { return "." + b.dep.Package + "." + []string{"Shared", "Other"}[rng.Intn(2)] }
			var ms []svcdesc.Method
			if v == 0 {
				ms = []svcdesc.Method{{Name: "Q", In: in, Out: imp(), Opts: svcdesc.Opts{Quorumcall: true}},
					{Name: "A", In: imp(), Out: imp(), Opts: svcdesc.Opts{Quorumcall: true, Async: true}},
					{Name: "C", In: in, Out: imp(), Opts: svcdesc.Opts{Correctable: true}, ServerStream: true},
					{Name: "M", In: imp(), Out: b.useEmpty(), Opts: svcdesc.Opts{Multicast: true}}}
			} else {
				ms = []svcdesc.Method{{Name: "R", In: imp(), Out: imp()},
					{Name: "U", In: imp(), Out: b.addMsg("Nothing"), Opts: svcdesc.Opts{Unicast: true}},
					{Name: "P", In: imp(), Out: imp(), Opts: svcdesc.Opts{Quorumcall: true, PerNodeArg: true}}}
			}
			b.f.Services = []svcdesc.Service{{Name: "Svc", Methods: ms}}
			out = append(out, b.build("legal", "accept", "message types imported from a Go package named "+pn+": "+describe(ms)))
		}
	}
	return out
}

// MultiFileCases returns requests that ask for two files at once: two services in different packages that share a method
// name (and message names) but give it different call types. Each file alone is documented-legal, so the request is.
func MultiFileCases(rng *rand.Rand, prefix string) []Case {
	var out []Case
	n := 0
	kinds := []callKind{kRPC, kUnicast, kMulticast, kQC, kAsync, kCorr, kCorrStream}
	for _, k1 := range kinds {
		for _, k2 := range kinds {
			if k1 == k2 {
				continue
			}
			n++
			b := newBuilder(rng, fmt.Sprintf("%s%d", prefix, n))
			in, rep := b.addMsg("Request"), b.addMsg("Response")
			b.f.Services = []svcdesc.Service{{Name: "Storage", Methods: []svcdesc.Method{
				{Name: "Read", In: in, Out: rep, Opts: baseOpts(k1), ServerStream: k1 == kCorrStream},
				{Name: "Write", In: in, Out: rep, Opts: baseOpts(kQC)},
			}}}
			dpkg := b.pkg + "log"
			dep := svcdesc.File{Name: b.id + "/log/log.proto", Package: dpkg, GoPackage: b.gopkg + "/log", Deps: []string{"gorums.proto"},
				Messages: []svcdesc.Message{msg("Request"), msg("Response")}}
			din, drep := "."+dpkg+".Request", "."+dpkg+".Response"
			dep.Services = []svcdesc.Service{{Name: "Log", Methods: []svcdesc.Method{
				{Name: "Read", In: din, Out: drep, Opts: baseOpts(k2), ServerStream: k2 == kCorrStream},
				{Name: "Append", In: din, Out: drep, Opts: baseOpts(k1), ServerStream: k1 == kCorrStream},
			}}}
			b.dep = &dep
			c := b.build("legal", "accept", fmt.Sprintf("two files in one request: Storage.Read as %s, Log.Read as %s, Log.Append as %s", k1, k2, k1))
			c.GenAlso = []string{dep.Name}
			out = append(out, c)
		}
	}
	return out
}
