package gencheck

import (
	"bytes"
	"fmt"
	"math/rand"
	"os"
	"os/exec"
	"path/filepath"
	"regexp"
	"sort"
	"strings"
	"sync"
	"time"

	"verif/internal/plugin"
	"verif/internal/report"

	"google.golang.org/protobuf/types/descriptorpb"
)

type caseResult struct {
	c        *Case
	res      *plugin.Result
	accepted bool
	files    map[string]string
	nondet   string
}

var posRe = regexp.MustCompile(`[^\s:]+\.go:\d+:\d+: `)
var numRe = regexp.MustCompile(`\d+`)

var logTsRe = regexp.MustCompile(`\d{4}/\d\d/\d\d \d\d:\d\d:\d\d `)

func normErr(s string) string {
	s = logTsRe.ReplaceAllString(s, "")
	s = regexp.MustCompile(`\b[ilts]\d+/`).ReplaceAllString(s, "ID/")
	s = posRe.ReplaceAllString(s, "")
	s = strings.TrimSpace(s)
	if i := strings.Index(s, "\n"); i >= 0 {
		s = s[:i]
	}
	s = regexp.MustCompile(`c16_\d+/[a-z]+\d+`).ReplaceAllString(s, "PKG")
	if len(s) > 140 {
		s = s[:140]
	}
	return s
}

// rebase rewrites the case's paths below root (unique per process).
func rebase(c *Case, root string) {
	for i := range c.Files {
		c.Files[i].GoPackage = strings.Replace(c.Files[i].GoPackage, "verif/build/c16/", "verif/"+root+"/", 1)
	}
}

// RunC16 runs the generator lattice.
func RunC16(r *report.Run, b Bins, tier string, seed int64) {
	r.Rule = "service definitions synthesized as descriptors (validated with protodesc.NewFiles): documented-legal lattice (call type x per_node_arg x custom_return_type x async x server stream x own/shared/Empty/imported messages x 1..12 methods x identifier spellings), " +
		"every documented illegal input, identifier-collision inputs, and requests for two files at once whose services share a method name with different call types; the real plugin binary is run as a subprocess several times per input; accepted output is compiled together with protoc-gen-go's output; " +
		"distinct = input definition; non-trivial = every input (each is a different service definition)"
	r.Assume("inputs are descriptors protoc would accept (checked with protodesc.NewFiles); there is no protoc on this image, so protoc's own front-end checks are not exercised")
	r.Assume("go build of the emitted package against /repo's runtime decides 'compiles'")
	rng := rand.New(rand.NewSource(seed*7777 + 16))
	root := fmt.Sprintf("build/c16_%d", os.Getpid())
	absRoot := filepath.Join(b.Verif, root)
	os.RemoveAll(absRoot)
	if os.Getenv("VERIF_KEEP_C16") == "" {
		defer os.RemoveAll(absRoot)
	}
	nLegal, runs := 120, 4
	if tier == "thorough" {
		nLegal, runs = 2500, 12
	}
	var cases []Case
	for i := 0; i < nLegal; i++ {
		cases = append(cases, LegalCase(rng, fmt.Sprintf("l%d", i)))
	}
	cases = append(cases, IllegalCases(rng, "i")...)
	cases = append(cases, TrickyCases(rng, "t")...)
	cases = append(cases, MultiFileCases(rng, "m")...)
	cases = append(cases, ImportNameCases(rng, "n")...)
	for i := range cases {
		rebase(&cases[i], root)
	}
	results := make([]*caseResult, len(cases))
	var wg sync.WaitGroup
	sem := make(chan struct{}, 16)
	for i := range cases {
		c := &cases[i]
		protos := c.Protos()
		if err := plugin.Validate(protos); err != nil {
			r.Count("skipped_invalid_descriptor", 1)
			r.Seen("invalid_descriptor_reasons", c.Class+": "+normErr(err.Error()))
			continue
		}
		wg.Add(1)
		sem <- struct{}{}
		go func(i int, c *Case, protos []*descriptorpb.FileDescriptorProto) {
			defer wg.Done()
			defer func() { <-sem }()
			req, err := plugin.Request(protos, append([]string{c.Gen}, c.GenAlso...), c.Param)
			if err != nil {
				r.Inconc("request: " + err.Error())
				return
			}
			cr := &caseResult{c: c}
			var first *plugin.Result
			k := runs
			if c.expect != "accept" {
				k = 2
			}
			for n := 0; n < k; n++ {
				res := plugin.Run(b.Gorums, req, 10*time.Second, "")
				if first == nil {
					first = res
					continue
				}
				if res.Exit != first.Exit || !bytes.Equal(res.Raw, first.Raw) {
					cr.nondet = fmt.Sprintf("run 1 and run %d differ (exit %d/%d, %d/%d bytes)", n+1, first.Exit, res.Exit, len(first.Raw), len(res.Raw))
				}
			}
			cr.res = first
			cr.accepted = !first.TimedOut && first.Exit == 0 && first.Resp != nil && first.Resp.Error == nil
			if cr.accepted {
				cr.files = first.Files()
				// protoc-gen-go for every file of the case
				var gen []string
				for _, f := range c.Files {
					gen = append(gen, f.Name)
				}
				greq, _ := plugin.Request(protos, gen, "paths=source_relative")
				gres := plugin.Run(b.Go, greq, 20*time.Second, "")
				if gres.Exit != 0 || gres.Resp == nil || gres.Resp.Error != nil {
					r.Count("skipped_protoc_gen_go_rejects", 1)
					cr.files = nil
					cr.accepted = false
					cr.res = nil
					results[i] = nil
					return
				}
				for n, s := range gres.Files() {
					cr.files[n] = s
				}
			}
			results[i] = cr
		}(i, c, protos)
	}
	wg.Wait()
	// write accepted packages
	pkgOf := map[string]*caseResult{}
	for _, cr := range results {
		if cr == nil || !cr.accepted || len(cr.files) == 0 {
			continue
		}
		if err := plugin.WriteFiles(absRoot, cr.files); err != nil {
			r.Inconc("write: " + err.Error())
			continue
		}
		pkgOf["verif/"+root+"/"+cr.c.ID] = cr
	}
	// batch build
	buildErrs := map[string]string{}
	if len(pkgOf) > 0 {
		cmd := exec.Command("go", "build", "./"+root+"/...")
		cmd.Dir = b.Verif
		out, err := cmd.CombinedOutput()
		if err != nil {
			cur := ""
			for _, line := range strings.Split(string(out), "\n") {
				if strings.HasPrefix(line, "# ") {
					cur = strings.Fields(line)[1]
					continue
				}
				if cur != "" && strings.TrimSpace(line) != "" {
					if _, ok := buildErrs[cur]; !ok {
						buildErrs[cur] = line
					}
				}
			}
			if len(buildErrs) == 0 {
				r.Inconc("go build failed without package errors: " + tail(string(out), 500))
			}
		}
		r.Count("packages_compiled", int64(len(pkgOf)))
	}
	for _, cr := range results {
		if cr == nil {
			continue
		}
		c := cr.c
		r.Eval(c.Class+"|"+c.Desc+"|"+c.Files[0].Package, true)
		r.Count("class."+strings.SplitN(c.Class, ":", 2)[0], 1)
		res := cr.res
		det := map[string]any{"class": c.Class, "definition": c.Desc, "package": c.Files[0].Package, "exit": res.Exit, "stderr": tail(res.Stderr, 400), "response_error": res.Resp.GetError()}
		if res.TimedOut {
			r.Violate("timeout:"+c.Class, "plugin did not terminate within 10 s", det)
			continue
		}
		if cr.nondet != "" {
			r.Violate("nondeterministic:"+strings.SplitN(c.Class, ":", 2)[0], "plugin output differs between runs on the same request: "+cr.nondet, det)
		}
		if !cr.accepted {
			r.Count("branch.diagnosed", 1)
			if !res.Diagnosed() {
				r.Violate("rejected-without-diagnostic:"+c.Class, "plugin failed without a diagnostic", det)
			}
			if c.expect == "accept" {
				r.Violate("legal-rejected:"+normErr(res.Stderr+res.Resp.GetError()), "documented-legal definition rejected: "+normErr(res.Stderr+res.Resp.GetError()), det)
			} else {
				r.Seen("diagnostics", normErr(res.Stderr+res.Resp.GetError()))
			}
			continue
		}
		r.Count("branch.accepted", 1)
		if c.expect == "diagnose" {
			what := "documented illegal input accepted without a diagnostic"
			if len(cr.files) == 0 {
				what += " (no file, no diagnostic)"
			}
			r.Violate("illegal-accepted:"+strings.TrimPrefix(c.Class, "illegal:"), what, det)
			continue
		}
		if len(cr.files) == 0 {
			if c.expect == "accept" {
				r.Violate("legal-no-output", "documented-legal definition produced no file", det)
			}
			continue
		}
		pkg := "verif/" + root + "/" + c.ID
		var be string
		for p, e := range buildErrs {
			if p == pkg || strings.HasPrefix(p, pkg+"/") {
				be = e
			}
		}
		if be != "" {
			det["compile_error"] = be
			cls := c.Class
			if c.expect == "accept" {
				cls = "legal"
			}
			r.Violate("broken-output:"+cls+":"+normErr(be), "plugin exited 0 but the emitted code does not compile: "+normErr(be), det)
			continue
		}
		r.Count("compiled_ok", 1)
		if len(r.Samples) < 4 {
			r.Sample(map[string]any{"class": c.Class, "definition": c.Desc, "files": keys(cr.files), "branch": "accepted+compiles"})
		}
	}
	for _, cr := range results {
		if cr != nil && !cr.accepted && cr.res != nil {
			r.Sample(map[string]any{"class": cr.c.Class, "definition": cr.c.Desc, "branch": "diagnosed", "diagnostic": normErr(cr.res.Stderr + cr.res.Resp.GetError())})
			break
		}
	}
	r.Count("plugin_runs_per_legal_input", int64(runs))
	// the plugin's other mode (parameter dev=true: one file per generated Gorums type, as used to maintain the repository's own
	// dev package): the same input must give the same response bytes on every run there too (the output is not compiled here:
	// it is meant to live next to the hand-written dev package)
	nd := 0
	for i := range cases {
		c := &cases[i]
		if c.expect != "accept" || nd >= 12 {
			continue
		}
		protos := c.Protos()
		if plugin.Validate(protos) != nil {
			continue
		}
		req, err := plugin.Request(protos, []string{c.Gen}, c.Param+",dev=true")
		if err != nil {
			continue
		}
		nd++
		var first *plugin.Result
		for n := 0; n < 8; n++ {
			res := plugin.Run(b.Gorums, req, 10*time.Second, "")
			if first == nil {
				first = res
				continue
			}
			if res.Exit != first.Exit || !bytes.Equal(res.Raw, first.Raw) {
				r.Violate("unstable-output:dev-mode", fmt.Sprintf("parameter dev=true: run 1 and run %d of the plugin on the same request differ (exit %d/%d, %d/%d bytes, %d files)", n+1, first.Exit, res.Exit, len(first.Raw), len(res.Raw), len(first.Files())),
					map[string]any{"definition": c.Desc})
				break
			}
		}
		r.Eval("dev-mode|"+c.Desc+"|"+c.Files[0].Package, true)
		r.Count("dev_mode_inputs_run_8_times", 1)
	}
}

func keys(m map[string]string) []string {
	var k []string
	for x := range m {
		k = append(k, x)
	}
	sort.Strings(k)
	return k
}

// RunC17Synth checks the name/call-type bindings of the code emitted for synthesized legal services.
func RunC17Synth(r *report.Run, b Bins, tier string, seed int64) {
	rng := rand.New(rand.NewSource(seed*9999 + 17))
	n := 40
	if tier == "thorough" {
		n = 400
	}
	var cases []Case
	for i := 0; i < n; i++ {
		cases = append(cases, LegalCase(rng, fmt.Sprintf("s%d", i)))
	}
	// documented-illegal definitions: rejecting them is C16's subject; but if the plugin emits stubs for one, those stubs are
	// held to the declared options like any others
	cases = append(cases, IllegalCases(rng, "si")...)
	// identifier-collision inputs and imports from packages named like the generated code's own imports: whether to accept them
	// is the generator's choice (C16), what it emits for them must bind each method to its own types
	for _, c := range TrickyCases(rng, "st") {
		if !strings.Contains(c.Class, "explicit-false") { // (what an option that is present with the value false means is left open)
			cases = append(cases, c)
		}
	}
	cases = append(cases, ImportNameCases(rng, "sn")...)
	for i, c := range cases {
		protos := c.Protos()
		if plugin.Validate(protos) != nil {
			continue
		}
		req, err := plugin.Request(protos, append([]string{c.Gen}, c.GenAlso...), c.Param)
		if err != nil {
			continue
		}
		res := plugin.Run(b.Gorums, req, 10*time.Second, "")
		if res.Exit != 0 || res.Resp == nil || res.Resp.Error != nil {
			r.Count("synth_rejected(C16 matter)", 1)
			continue
		}
		for _, src := range res.Files() {
			bad := CheckBindings(protos[0], src)
			for _, m := range bad {
				r.Violate("binding:synth", m, map[string]any{"definition": c.Desc})
			}
			r.Eval("synth|"+c.Desc, true)
			if i < 2 {
				r.Sample(map[string]any{"kind": "synthesized-binding", "definition": c.Desc, "binding_mismatches": len(bad)})
			}
			r.Count("methods_bound", int64(countMethods(protos[0])))
		}
	}
}

// MergeChild runs a veng child for prop and merges its result.
func MergeChild(r *report.Run, veng, prop, tier string) {
	dir, err := os.MkdirTemp("", "c17child")
	if err != nil {
		r.Inconc(err.Error())
		return
	}
	defer os.RemoveAll(dir)
	out := filepath.Join(dir, "res.json")
	cmd := exec.Command(veng, "child", prop, tier, "0", "1", out)
	lb, err := cmd.CombinedOutput()
	if err != nil {
		keep := filepath.Join(filepath.Dir(filepath.Dir(filepath.Dir(veng))), "replays", prop+"-child.log")
		os.WriteFile(keep, lb, 0o644)
		if bytes.Contains(lb, []byte("panic:")) && bytes.Contains(lb, []byte("github.com/relab/gorums")) {
			r.Violate("crash:binding-engine", "behavioural binding engine crashed inside the library", map[string]any{"log": keep})
			return
		}
		r.Inconc("binding engine child failed: " + err.Error() + " (log " + keep + ")")
		return
	}
	cr, err := report.Load(out)
	if err != nil {
		r.Inconc("binding engine child produced no result")
		return
	}
	r.Merge(cr)
}
