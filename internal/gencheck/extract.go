// Package gencheck holds the generator-side checks (C16, C17): descriptor
// extraction from committed .pb.go files, regeneration, AST comparison,
// binding checks on emitted code, and the service-definition lattice.
package gencheck

import (
	"bytes"
	"fmt"
	"go/ast"
	"go/parser"
	"go/printer"
	"go/token"
	"os"
	"reflect"
	"strconv"
	"strings"

	"google.golang.org/protobuf/proto"
	"google.golang.org/protobuf/types/descriptorpb"
)

// ExtractDesc reads the raw descriptor literal out of a protoc-gen-go file
// without linking it.
func ExtractDesc(path string) (*descriptorpb.FileDescriptorProto, error) {
	fset := token.NewFileSet()
	f, err := parser.ParseFile(fset, path, nil, 0)
	if err != nil {
		return nil, err
	}
	for _, d := range f.Decls {
		gd, ok := d.(*ast.GenDecl)
		if !ok || gd.Tok != token.VAR {
			continue
		}
		for _, sp := range gd.Specs {
			vs := sp.(*ast.ValueSpec)
			if len(vs.Names) != 1 || !strings.HasSuffix(vs.Names[0].Name, "_rawDesc") || len(vs.Values) != 1 {
				continue
			}
			cl, ok := vs.Values[0].(*ast.CompositeLit)
			if !ok {
				continue
			}
			raw := make([]byte, 0, len(cl.Elts))
			for _, e := range cl.Elts {
				bl, ok := e.(*ast.BasicLit)
				if !ok {
					return nil, fmt.Errorf("%s: unexpected element in rawDesc", path)
				}
				v, err := strconv.ParseUint(bl.Value, 0, 8)
				if err != nil {
					return nil, err
				}
				raw = append(raw, byte(v))
			}
			fd := &descriptorpb.FileDescriptorProto{}
			if err := proto.Unmarshal(raw, fd); err != nil {
				return nil, err
			}
			return fd, nil
		}
	}
	return nil, fmt.Errorf("%s: no rawDesc found", path)
}

// Canon parses Go source and prints it without comments.
func Canon(src string) (string, error) {
	fset := token.NewFileSet()
	f, err := parser.ParseFile(fset, "x.go", src, 0) // comments dropped
	if err != nil {
		return "", err
	}
	var b bytes.Buffer
	if err := (&printer.Config{Mode: printer.UseSpaces | printer.TabIndent, Tabwidth: 8}).Fprint(&b, fset, f); err != nil {
		return "", err
	}
	return b.String(), nil
}

// structure dumps the AST without positions, comments and resolver data: two sources that differ only in comments
// and layout have the same dump.
func structure(src string) (string, error) {
	fset := token.NewFileSet()
	f, err := parser.ParseFile(fset, "x.go", src, parser.SkipObjectResolution)
	if err != nil {
		return "", err
	}
	var b bytes.Buffer
	posType := reflect.TypeOf(token.NoPos)
	filter := func(name string, v reflect.Value) bool {
		if v.Type() == posType {
			return false
		}
		switch name {
		case "Doc", "Comment", "Comments", "Obj", "Scope", "Unresolved", "Imports", "FileStart", "FileEnd", "GoVersion":
			return false
		}
		return true
	}
	if err := ast.Fprint(&b, nil, f, filter); err != nil {
		return "", err
	}
	return b.String(), nil
}

// ASTDiff compares two Go sources modulo comments and formatting; it returns
// "" when equal, else a short description of the first difference.
func ASTDiff(a, b string) string {
	sa, err := structure(a)
	if err != nil {
		return "first file does not parse: " + err.Error()
	}
	sb, err := structure(b)
	if err != nil {
		return "second file does not parse: " + err.Error()
	}
	if sa == sb {
		return ""
	}
	// human-readable location of the first difference (best effort, from the printed form)
	ca, _ := Canon(a)
	cb, _ := Canon(b)
	la, lb := strings.Split(ca, "\n"), strings.Split(cb, "\n")
	for i := 0; i < len(la) && i < len(lb); i++ {
		if strings.TrimSpace(la[i]) != strings.TrimSpace(lb[i]) {
			return fmt.Sprintf("line %d: %q vs %q", i+1, strings.TrimSpace(la[i]), strings.TrimSpace(lb[i]))
		}
	}
	return fmt.Sprintf("structure differs (%d vs %d printed lines)", len(la), len(lb))
}

// ReadFile is os.ReadFile returning a string.
func ReadFile(p string) (string, error) {
	b, err := os.ReadFile(p)
	return string(b), err
}
