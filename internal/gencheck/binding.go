package gencheck

import (
	"fmt"
	"go/ast"
	"go/parser"
	"go/token"
	"go/types"
	"strconv"
	"strings"

	"google.golang.org/protobuf/types/descriptorpb"
)

// goCamel mirrors protoc-gen-go's GoCamelCase for method names.
func goCamel(s string) string {
	var b []byte
	for i := 0; i < len(s); i++ {
		c := s[i]
		switch {
		case c == '.' && i+1 < len(s) && isLower(s[i+1]):
		case c == '.':
			b = append(b, '_')
		case c == '_' && (i == 0 || s[i-1] == '.'):
			b = append(b, 'X')
		case c == '_' && i+1 < len(s) && isLower(s[i+1]):
		case isDigit(c):
			b = append(b, c)
		default:
			if isLower(c) {
				c -= 'a' - 'A'
			}
			b = append(b, c)
			for ; i+1 < len(s) && isLower(s[i+1]); i++ {
				b = append(b, s[i+1])
			}
		}
	}
	return string(b)
}

func isLower(c byte) bool { return 'a' <= c && c <= 'z' }
func isDigit(c byte) bool { return '0' <= c && c <= '9' }

// Binding is what the emitted code binds for one Go method name.
type Binding struct {
	ClientMethod string // Method: "<...>" literal inside func (…) <GoName>
	ServerKey    string // RegisterHandler("<...>") whose body calls impl.<GoName>
	ServerStream *bool  // ServerStream: literal in the client stub (correctable)
	CallFn       string // RawConfiguration/RawNode method invoked by the client stub
	SetsPerNode  bool   // the stub assigns cd.PerNodeArgFn
	HasFParam    bool   // the stub takes a per-node function parameter f
	SetsQF       bool   // the stub assigns cd.QuorumFunction
	QFMethod     string // c.qspec.<X>QF invoked inside the quorum function wrapper
	Promise      string // name of the promise type the stub returns (*AsyncX, *CorrectableX), if any
	PromiseGet   string // first result type of (*Promise).Get, as written
	QFReturns    string // first result type of the QuorumSpec method QFMethod, as written
}

// Bindings extracts, from an emitted *_gorums.pb.go source, the method-name
// literals on the client and server side per Go method name.
func Bindings(src string) (map[string]*Binding, error) {
	fset := token.NewFileSet()
	f, err := parser.ParseFile(fset, "g.go", src, 0)
	if err != nil {
		return nil, err
	}
	out := map[string]*Binding{}
	get := func(n string) *Binding {
		if out[n] == nil {
			out[n] = &Binding{}
		}
		return out[n]
	}
	for _, d := range f.Decls {
		fd, ok := d.(*ast.FuncDecl)
		if !ok || fd.Body == nil {
			continue
		}
		if fd.Recv != nil && len(fd.Recv.List) == 1 {
			rt := fd.Recv.List[0].Type
			if st, ok := rt.(*ast.StarExpr); ok {
				rt = st.X
			}
			id, ok := rt.(*ast.Ident)
			if !ok || (id.Name != "Configuration" && id.Name != "Node") {
				continue
			}
			name := fd.Name.Name
			if fd.Type.Results != nil && len(fd.Type.Results.List) == 1 {
				if st, ok := fd.Type.Results.List[0].Type.(*ast.StarExpr); ok {
					if id, ok := st.X.(*ast.Ident); ok && (strings.HasPrefix(id.Name, "Async") || strings.HasPrefix(id.Name, "Correctable")) {
						get(name).Promise = id.Name
					}
				}
			}
			for _, prm := range fd.Type.Params.List {
				for _, pn := range prm.Names {
					if _, isFn := prm.Type.(*ast.FuncType); isFn && pn.Name == "f" {
						get(name).HasFParam = true
					}
				}
			}
			ast.Inspect(fd.Body, func(n ast.Node) bool {
				switch x := n.(type) {
				case *ast.AssignStmt:
					for li, l := range x.Lhs {
						if se, ok := l.(*ast.SelectorExpr); ok {
							if se.Sel.Name == "ServerStream" && li < len(x.Rhs) {
								if v, ok := x.Rhs[li].(*ast.Ident); ok {
									b := v.Name == "true"
									get(name).ServerStream = &b
								}
							}
							if se.Sel.Name == "PerNodeArgFn" {
								get(name).SetsPerNode = true
							}
							if se.Sel.Name == "QuorumFunction" {
								get(name).SetsQF = true
							}
						}
					}
				case *ast.KeyValueExpr:
					k, ok := x.Key.(*ast.Ident)
					if !ok {
						return true
					}
					if k.Name == "Method" {
						if bl, ok := x.Value.(*ast.BasicLit); ok && bl.Kind == token.STRING {
							s, _ := strconv.Unquote(bl.Value)
							get(name).ClientMethod = s
						}
					}
					if k.Name == "ServerStream" {
						if v, ok := x.Value.(*ast.Ident); ok {
							b := v.Name == "true"
							get(name).ServerStream = &b
						}
					}
				case *ast.CallExpr:
					if se, ok := x.Fun.(*ast.SelectorExpr); ok {
						if in, ok := se.X.(*ast.SelectorExpr); ok && (in.Sel.Name == "RawConfiguration" || in.Sel.Name == "RawNode") {
							get(name).CallFn = se.Sel.Name
						}
						if in, ok := se.X.(*ast.SelectorExpr); ok && in.Sel.Name == "qspec" {
							get(name).QFMethod = se.Sel.Name
						}
					}
				}
				return true
			})
			continue
		}
		if fd.Recv == nil && strings.HasPrefix(fd.Name.Name, "Register") && strings.HasSuffix(fd.Name.Name, "Server") {
			ast.Inspect(fd.Body, func(n ast.Node) bool {
				ce, ok := n.(*ast.CallExpr)
				if !ok {
					return true
				}
				se, ok := ce.Fun.(*ast.SelectorExpr)
				if !ok || se.Sel.Name != "RegisterHandler" || len(ce.Args) != 2 {
					return true
				}
				bl, ok := ce.Args[0].(*ast.BasicLit)
				if !ok {
					return true
				}
				key, _ := strconv.Unquote(bl.Value)
				// which impl method does the handler call?
				ast.Inspect(ce.Args[1], func(m ast.Node) bool {
					c2, ok := m.(*ast.CallExpr)
					if !ok {
						return true
					}
					s2, ok := c2.Fun.(*ast.SelectorExpr)
					if !ok {
						return true
					}
					if id, ok := s2.X.(*ast.Ident); ok && id.Name == "impl" {
						b := get(s2.Sel.Name)
						if b.ServerKey != "" && b.ServerKey != key {
							b.ServerKey += "|" + key
						} else {
							b.ServerKey = key
						}
					}
					return true
				})
				return false
			})
		}
	}
	getRet := map[string]string{}
	qfRet := map[string]string{}
	for _, d := range f.Decls {
		switch x := d.(type) {
		case *ast.FuncDecl:
			if x.Recv != nil && len(x.Recv.List) == 1 && x.Name.Name == "Get" && x.Type.Results != nil && len(x.Type.Results.List) > 0 {
				rt := x.Recv.List[0].Type
				if st, ok := rt.(*ast.StarExpr); ok {
					rt = st.X
				}
				if id, ok := rt.(*ast.Ident); ok {
					getRet[id.Name] = types.ExprString(x.Type.Results.List[0].Type)
				}
			}
		case *ast.GenDecl:
			for _, sp := range x.Specs {
				ts, ok := sp.(*ast.TypeSpec)
				if !ok || ts.Name.Name != "QuorumSpec" {
					continue
				}
				it, ok := ts.Type.(*ast.InterfaceType)
				if !ok {
					continue
				}
				for _, m := range it.Methods.List {
					ft, ok := m.Type.(*ast.FuncType)
					if !ok || len(m.Names) != 1 || ft.Results == nil || len(ft.Results.List) == 0 {
						continue
					}
					qfRet[m.Names[0].Name] = types.ExprString(ft.Results.List[0].Type)
				}
			}
		}
	}
	for _, b := range out {
		if b.Promise != "" {
			b.PromiseGet = getRet[b.Promise]
		}
		if b.QFMethod != "" {
			b.QFReturns = qfRet[b.QFMethod]
		}
	}
	return out, nil
}

// WantCallFn returns the runtime entry point the stub of a method must use.
func WantCallFn(m *descriptorpb.MethodDescriptorProto, o MethodOpts) string {
	switch {
	case o.Quorumcall && o.Async:
		return "AsyncCall"
	case o.Quorumcall:
		return "QuorumCall"
	case o.Correctable:
		return "CorrectableCall"
	case o.Multicast:
		return "Multicast"
	case o.Unicast:
		return "Unicast"
	}
	return "RPCCall"
}

// CheckBindings compares the bindings of an emitted file with the descriptor.
func CheckBindings(fd *descriptorpb.FileDescriptorProto, src string) []string {
	var bad []string
	b, err := Bindings(src)
	if err != nil {
		return []string{"emitted file does not parse: " + err.Error()}
	}
	for _, svc := range fd.GetService() {
		for _, m := range svc.GetMethod() {
			full := fd.GetPackage() + "." + svc.GetName() + "." + m.GetName()
			gn := goCamel(m.GetName())
			bi := b[gn]
			if bi == nil {
				bad = append(bad, fmt.Sprintf("%s: no generated code found for Go method %s", full, gn))
				continue
			}
			if bi.ClientMethod != full {
				bad = append(bad, fmt.Sprintf("%s: client stub %s sends under %q", full, gn, bi.ClientMethod))
			}
			if bi.ServerKey != full {
				bad = append(bad, fmt.Sprintf("%s: server handler calling impl.%s is registered under %q", full, gn, bi.ServerKey))
			}
			o := OptsOf(m)
			if want := WantCallFn(m, o); bi.CallFn != want {
				bad = append(bad, fmt.Sprintf("%s: client stub uses %s, declared call type needs %s", full, bi.CallFn, want))
			}
			if o.PerNodeArg != bi.SetsPerNode || o.PerNodeArg != bi.HasFParam {
				bad = append(bad, fmt.Sprintf("%s: per_node_arg=%v but the stub takes f: %v and passes it on (cd.PerNodeArgFn): %v", full, o.PerNodeArg, bi.HasFParam, bi.SetsPerNode))
			}
			if o.Custom != "" && !(o.Quorumcall || o.Correctable) {
				bad = append(bad, fmt.Sprintf("%s: custom_return_type %q is declared, but the method's call type has no quorum function that could produce it (the stub cannot honour the option)", full, o.Custom))
			}
			if o.Quorumcall || o.Correctable {
				if !bi.SetsQF || bi.QFMethod != gn+"QF" {
					bad = append(bad, fmt.Sprintf("%s: stub does not route replies to the quorum function %sQF (sets QuorumFunction: %v, calls %q)", full, gn, bi.SetsQF, bi.QFMethod))
				}
			}
			if bi.Promise != "" && bi.QFMethod != "" && bi.PromiseGet != bi.QFReturns {
				bad = append(bad, fmt.Sprintf("%s: the stub hands out a %s, whose Get returns %s, but the value comes from the quorum function %s, which returns %s (the typed accessor cannot convert it)", full, bi.Promise, bi.PromiseGet, bi.QFMethod, bi.QFReturns))
			}
			if o.Correctable {
				// (a stub that does not mention the flag leaves it false)
				if (bi.ServerStream != nil && *bi.ServerStream) != m.GetServerStreaming() {
					bad = append(bad, fmt.Sprintf("%s: ServerStream flag does not match the declaration (stream=%v)", full, m.GetServerStreaming()))
				}
			}
		}
	}
	return bad
}
