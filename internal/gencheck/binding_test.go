package gencheck

import "testing"

const stub = `package x

func (c *Configuration) ReadQC(ctx context.Context, in *Req, f func(*Req, uint32) *Req) (resp *Rep, err error) {
	cd := gorums.QuorumCallData{
		Message: in,
		Method:  "p.S.read_qc",
	}
	cd.QuorumFunction = func(req M, replies map[uint32]M) (M, bool) {
		return c.qspec.ReadQCQF(req.(*Req), nil)
	}
	cd.PerNodeArgFn = func(req M, nid uint32) M { return f(req.(*Req), nid) }
	res, err := c.RawConfiguration.QuorumCall(ctx, cd)
	return res.(*Rep), err
}

func (c *Configuration) Watch(ctx context.Context, in *Req) *CorrectableStreamRep {
	cd := gorums.CorrectableCallData{
		Message:      in,
		Method:       "p.S.Watch",
		ServerStream: true,
	}
	cd.QuorumFunction = func(req M, replies map[uint32]M) (M, int, bool) {
		return c.qspec.WatchQF(req.(*Req), nil)
	}
	corr := c.RawConfiguration.CorrectableCall(ctx, cd)
	return &CorrectableStreamRep{corr}
}

func RegisterSServer(srv *gorums.Server, impl S) {
	srv.RegisterHandler("p.S.read_qc", func(ctx gorums.ServerCtx, in *gorums.Message, finished chan<- *gorums.Message) {
		resp, err := impl.ReadQC(ctx, req)
		_ = resp
		_ = err
	})
	srv.RegisterHandler("p.S.Watch", func(ctx gorums.ServerCtx, in *gorums.Message, finished chan<- *gorums.Message) {
		err := impl.Watch(ctx, req, nil)
		_ = err
	})
}
`

func TestBindings(t *testing.T) {
	b, err := Bindings(stub)
	if err != nil {
		t.Fatal(err)
	}
	r := b["ReadQC"]
	if r == nil || r.ClientMethod != "p.S.read_qc" || r.ServerKey != "p.S.read_qc" || r.CallFn != "QuorumCall" || !r.SetsPerNode || !r.HasFParam || !r.SetsQF || r.QFMethod != "ReadQCQF" {
		t.Fatalf("ReadQC: %+v", r)
	}
	w := b["Watch"]
	if w == nil || w.ServerStream == nil || !*w.ServerStream || w.CallFn != "CorrectableCall" || w.SetsPerNode || w.HasFParam {
		t.Fatalf("Watch: %+v", w)
	}
	if goCamel("read_qc") != "ReadQc" || goCamel("writeAsync") != "WriteAsync" || goCamel("Get2") != "Get2" {
		t.Fatalf("goCamel: %s %s", goCamel("read_qc"), goCamel("writeAsync"))
	}
}

func TestASTDiff(t *testing.T) {
	a := "package x\n// c1\nfunc F() int { return 1 } // t\n"
	b := "package x\n\nfunc F() int {\n\treturn 1\n}\n"
	if d := ASTDiff(a, b); d != "" {
		t.Fatalf("comment/format-only difference reported: %s", d)
	}
	if d := ASTDiff(a, "package x\nfunc F() int { return 2 }\n"); d == "" {
		t.Fatal("real difference not reported")
	}
}
