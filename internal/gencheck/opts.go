package gencheck

import (
	"github.com/relab/gorums"
	"google.golang.org/protobuf/proto"
	"google.golang.org/protobuf/types/descriptorpb"
)

// MethodOpts are the gorums options of a method.
type MethodOpts struct {
	Quorumcall, Async, Correctable, Multicast, Unicast, PerNodeArg bool
	Custom                                                         string
}

// OptsOf reads the gorums options of m. Descriptors extracted from .pb.go files carry the
// options as unknown fields unless gorums.proto's extensions are linked, which they are here.
func OptsOf(m *descriptorpb.MethodDescriptorProto) MethodOpts {
	var o MethodOpts
	mo := m.GetOptions()
	if mo == nil {
		return o
	}
	// re-parse so that extensions registered in this binary are recognised
	b, _ := proto.Marshal(mo)
	mo2 := &descriptorpb.MethodOptions{}
	_ = proto.Unmarshal(b, mo2)
	gb := func(x any) bool { v, _ := x.(bool); return v }
	o.Quorumcall = gb(proto.GetExtension(mo2, gorums.E_Quorumcall))
	o.Async = gb(proto.GetExtension(mo2, gorums.E_Async))
	o.Correctable = gb(proto.GetExtension(mo2, gorums.E_Correctable))
	o.Multicast = gb(proto.GetExtension(mo2, gorums.E_Multicast))
	o.Unicast = gb(proto.GetExtension(mo2, gorums.E_Unicast))
	o.PerNodeArg = gb(proto.GetExtension(mo2, gorums.E_PerNodeArg))
	if s, ok := proto.GetExtension(mo2, gorums.E_CustomReturnType).(string); ok {
		o.Custom = s
	}
	return o
}
