package h

import (
	"bytes"
	"fmt"
	"regexp"
	"runtime"
	"strconv"
	"strings"
	"time"
)

func yield() { runtime.Gosched() }

// GoID returns the id of the calling goroutine.
func GoID() int64 {
	var buf [64]byte
	n := runtime.Stack(buf[:], false)
	// "goroutine 123 [running]:"
	f := bytes.Fields(buf[:n])
	if len(f) < 2 {
		return -1
	}
	id, _ := strconv.ParseInt(string(f[1]), 10, 64)
	return id
}

// Task is a disposable goroutine running one client call (or probe).
type Task struct {
	Label string
	GID   int64
	Done  chan struct{}
	ready chan struct{}
	Panic any
	Start time.Time
	End   time.Time
}

// Go runs fn in a disposable goroutine. The harness never calls the client
// API from a goroutine it cannot afford to lose.
func Go(label string, fn func()) *Task {
	t := &Task{Label: label, Done: make(chan struct{}), ready: make(chan struct{}), Start: time.Now()}
	go func() {
		t.GID = GoID()
		close(t.ready)
		defer func() {
			if r := recover(); r != nil {
				buf := make([]byte, 16<<10)
				n := runtime.Stack(buf, false)
				t.Panic = fmt.Sprintf("%v\n%s", r, buf[:n])
			}
			t.End = time.Now()
			close(t.Done)
		}()
		fn()
	}()
	<-t.ready
	return t
}

// Verdict of the hang rule.
type Verdict int

const (
	Returned Verdict = iota
	Hung
	Inconclusive
)

// HangInfo describes a confirmed hang.
type HangInfo struct {
	Verdict Verdict
	State   string   // goroutine state of the task
	Frame   string   // innermost gorums frame (function name)
	Sig     string   // signature: state@frame
	Stack   string   // stack of the task goroutine (second dump)
	Others  []string // non-idle library goroutines: "state@frame"
	Dump    string   `json:"-"` // stacks of the non-idle library goroutines (second dump)
}

// LibStacks returns the stack text of the non-idle parked library goroutines.
func LibStacks(gs []G, except int64) string {
	var b strings.Builder
	for _, g := range gs {
		if g.ID == except {
			continue
		}
		in := innermostLib(g)
		if in == "" || idleLib(g) || !parked(g.State) {
			continue
		}
		b.WriteString(g.Text)
		b.WriteString("\n\n")
		if b.Len() > 60000 {
			break
		}
	}
	return b.String()
}

var (
	goroutineHdr = regexp.MustCompile(`^goroutine (\d+) \[([^\],]+)(?:, [^\]]*)?\]:$`)
)

// G is one goroutine of a dump.
type G struct {
	ID      int64
	State   string
	Frames  []string // function names, innermost first
	Created string
	Text    string
}

// Dump returns all goroutines.
func Dump() []G {
	buf := make([]byte, 4<<20)
	for {
		n := runtime.Stack(buf, true)
		if n < len(buf) {
			buf = buf[:n]
			break
		}
		buf = make([]byte, 2*len(buf))
	}
	return ParseDump(string(buf))
}

// ParseDump parses the text of runtime.Stack(all).
func ParseDump(s string) []G {
	var gs []G
	for _, blk := range strings.Split(s, "\n\n") {
		lines := strings.Split(strings.TrimSpace(blk), "\n")
		if len(lines) == 0 {
			continue
		}
		m := goroutineHdr.FindStringSubmatch(lines[0])
		if m == nil {
			continue
		}
		id, _ := strconv.ParseInt(m[1], 10, 64)
		g := G{ID: id, State: m[2], Text: blk}
		for _, l := range lines[1:] {
			if strings.HasPrefix(l, "\t") {
				continue
			}
			if strings.HasPrefix(l, "created by ") {
				c := strings.TrimPrefix(l, "created by ")
				if i := strings.Index(c, " in goroutine"); i >= 0 {
					c = c[:i]
				}
				g.Created = c
				continue
			}
			// strip argument list
			if i := strings.LastIndex(l, "("); i > 0 {
				l = l[:i]
			}
			g.Frames = append(g.Frames, l)
		}
		gs = append(gs, g)
	}
	return gs
}

const gorumsPkg = "github.com/relab/gorums"

func isLibFrame(f string) bool {
	return strings.HasPrefix(f, gorumsPkg+".") || strings.HasPrefix(f, gorumsPkg+"/ordering.")
}

// innermostLib returns the innermost frame inside the gorums runtime.
func innermostLib(g G) string {
	for _, f := range g.Frames {
		if isLibFrame(f) {
			return strings.TrimPrefix(f, gorumsPkg+".")
		}
	}
	return ""
}

func parked(state string) bool {
	switch state {
	case "select", "chan receive", "chan send", "sync.Mutex.Lock", "sync.RWMutex.Lock", "sync.RWMutex.RLock",
		"semacquire", "sync.Cond.Wait", "chan receive (nil chan)", "chan send (nil chan)", "select (no cases)", "sync.WaitGroup.Wait":
		return true
	}
	return false
}

func find(gs []G, id int64) *G {
	for i := range gs {
		if gs[i].ID == id {
			return &gs[i]
		}
	}
	return nil
}

// idleLib reports the normal idle states of the per-node goroutines.
func idleLib(g G) bool {
	in := innermostLib(g)
	switch {
	case in == "(*channel).sender" && g.State == "select":
		return true
	case in == "(*channel).receiver" || strings.HasSuffix(in, "Gorums_NodeStreamClient).RecvMsg"):
		return true
	case strings.Contains(in, "gorumsNodeStreamClient") || strings.Contains(in, "gorumsNodeStreamServer"):
		return true
	case strings.HasPrefix(in, "(*orderingServer).NodeStream"):
		return true
	case strings.HasPrefix(in, "(*Server).Serve"):
		return true
	}
	return false
}

// LibSummary lists non-idle parked library goroutines as "state@frame".
func LibSummary(gs []G, except int64) []string {
	var out []string
	for _, g := range gs {
		if g.ID == except {
			continue
		}
		in := innermostLib(g)
		if in == "" || idleLib(g) || !parked(g.State) {
			continue
		}
		out = append(out, g.State+"@"+in)
	}
	return out
}

// Await applies the hang rule to t: wait up to w for it to finish; on expiry
// take two dumps one second apart and decide.
func Await(t *Task, w time.Duration) HangInfo {
	select {
	case <-t.Done:
		return HangInfo{Verdict: Returned}
	case <-time.After(w):
	}
	d1 := Dump()
	select {
	case <-t.Done:
		return HangInfo{Verdict: Returned}
	case <-time.After(time.Second):
	}
	d2 := Dump()
	select {
	case <-t.Done:
		return HangInfo{Verdict: Returned}
	default:
	}
	g1, g2 := find(d1, t.GID), find(d2, t.GID)
	if g1 == nil || g2 == nil {
		return HangInfo{Verdict: Inconclusive, State: "goroutine not found in dump"}
	}
	f1, f2 := innermostLib(*g1), innermostLib(*g2)
	hi := HangInfo{State: g2.State, Frame: f2, Stack: g2.Text, Others: LibSummary(d2, t.GID), Dump: LibStacks(d2, t.GID)}
	if parked(g1.State) && parked(g2.State) && g1.State == g2.State && f1 == f2 && f2 != "" {
		hi.Verdict = Hung
		hi.Sig = g2.State + "@" + f2
		return hi
	}
	hi.Verdict = Inconclusive
	return hi
}

// AwaitCompletion is Await for a task that waits on a completion channel handed out by the library (a correctable's Done or
// Watch): the task itself is then parked in the caller's own code, outside any library frame. The call counts as hung when, in
// both dumps, the task is parked and the library goroutine that is to complete the call (one with the given frame on its stack,
// created for this call; the scenario must not have other such calls outstanding) still exists, whatever it is doing.
func AwaitCompletion(t *Task, w time.Duration, frame string) HangInfo {
	hi := Await(t, w)
	if hi.Verdict != Inconclusive || hi.Frame != "" || !parked(hi.State) {
		return hi
	}
	// Await took its two dumps already; take two more, one second apart, for the library goroutine
	alive := func() (string, string, bool) {
		for _, g := range Dump() {
			for _, f := range g.Frames {
				if strings.HasSuffix(f, frame) {
					return g.State, g.Text, true
				}
			}
		}
		return "", "", false
	}
	s1, _, ok1 := alive()
	select {
	case <-t.Done:
		return HangInfo{Verdict: Returned}
	case <-time.After(time.Second):
	}
	s2, text, ok2 := alive()
	select {
	case <-t.Done:
		return HangInfo{Verdict: Returned}
	default:
	}
	if !ok1 || !ok2 {
		return hi
	}
	st := "busy"
	if s1 == s2 && parked(s2) {
		st = s2
	}
	hi.Verdict = Hung
	hi.Sig = "not-completed:" + st + "@" + frame
	hi.Stack = text
	return hi
}

// AwaitChan is Await for a bare channel (no goroutine to inspect): Hung is
// decided from the library goroutines alone when a frame pattern is parked in both dumps.
func AwaitChan(done <-chan struct{}, w time.Duration) bool {
	select {
	case <-done:
		return true
	case <-time.After(w):
		return false
	}
}
