package h

import (
	"fmt"
	"sort"
	"sync"
	"sync/atomic"

	"verif/internal/gen/puppet"
)

// RepV is a value copy of a reply.
type RepV struct {
	Call   uint64 `json:"call"`
	Node   uint32 `json:"node"`
	Serial uint64 `json:"serial"`
	Conn   uint64 `json:"conn"`
	Idx    uint32 `json:"idx"`
	Digest uint64 `json:"digest"`
}

// RepOf copies r.
func RepOf(r *puppet.Rep) RepV {
	return RepV{Call: r.GetCall(), Node: r.GetNode(), Serial: r.GetSerial(), Conn: r.GetConn(), Idx: r.GetIdx(), Digest: r.GetDigest()}
}

// Inv is one recorded quorum-function invocation.
type Inv struct {
	Idx     int             `json:"idx"`
	Method  string          `json:"method"`
	SameReq bool            `json:"same_req"`
	NilRep  []uint32        `json:"nil_rep,omitempty"`
	Keys    []uint32        `json:"keys"`
	Reps    map[uint32]RepV `json:"reps"`
	Overlap int32           `json:"overlap"`
	Quorum  bool            `json:"quorum"`
	Level   int             `json:"level"`
	RetRep  *puppet.Rep     `json:"-"`
	RetAgg  *puppet.Agg     `json:"-"`
}

// CallMon monitors the quorum-function invocations of one call.
type CallMon struct {
	Token uint64
	Orig  *puppet.Req
	// Decide is the harness' quorum function proper.
	Decide func(inv *Inv) (quorum bool, level int)
	// Hook, if set, runs at the start of every invocation (on the call's own goroutine).
	Hook func(idx int)
	// Notify, if set, receives the index of each completed invocation (non-blocking).
	Notify chan int

	mu       sync.Mutex
	invs     []*Inv
	started  int
	inflight int32
}

// Invs returns the recorded invocations.
func (m *CallMon) Invs() []*Inv {
	m.mu.Lock()
	defer m.mu.Unlock()
	return append([]*Inv(nil), m.invs...)
}

// NumInvs returns the number of invocations so far.
func (m *CallMon) NumInvs() int {
	m.mu.Lock()
	defer m.mu.Unlock()
	return len(m.invs)
}

// QSpec is the monitored quorum specification of the harness.
type QSpec struct {
	calls   sync.Map // token -> *CallMon
	mu      sync.Mutex
	orphans []string
	Invoked atomic.Int64
}

// Register makes m the monitor of calls carrying m.Token.
func (q *QSpec) Register(m *CallMon) { q.calls.Store(m.Token, m) }

// Unregister forgets a call (late invocations are then orphans — used only after teardown).
func (q *QSpec) Unregister(token uint64) { q.calls.Delete(token) }

// Orphans returns invocations whose request carried no registered token.
func (q *QSpec) Orphans() []string {
	q.mu.Lock()
	defer q.mu.Unlock()
	return append([]string(nil), q.orphans...)
}

func (q *QSpec) run(method string, in *puppet.Req, replies map[uint32]*puppet.Rep) *Inv {
	q.Invoked.Add(1)
	v, ok := q.calls.Load(in.GetCall())
	if !ok {
		q.mu.Lock()
		if len(q.orphans) < 100 {
			q.orphans = append(q.orphans, fmt.Sprintf("%s call=%d", method, in.GetCall()))
		}
		q.mu.Unlock()
		return &Inv{Method: method}
	}
	m := v.(*CallMon)
	ov := atomic.AddInt32(&m.inflight, 1)
	defer atomic.AddInt32(&m.inflight, -1)
	m.mu.Lock()
	idx := m.started
	m.started++
	inv := &Inv{Idx: idx, Method: method, SameReq: in == m.Orig, Reps: make(map[uint32]RepV, len(replies)), Overlap: ov}
	for k, r := range replies {
		inv.Keys = append(inv.Keys, k)
		if r == nil {
			inv.NilRep = append(inv.NilRep, k)
			continue
		}
		inv.Reps[k] = RepOf(r)
	}
	sort.Slice(inv.Keys, func(i, j int) bool { return inv.Keys[i] < inv.Keys[j] })
	m.mu.Unlock()
	if m.Hook != nil {
		m.Hook(idx)
	}
	if m.Decide != nil {
		inv.Quorum, inv.Level = m.Decide(inv)
	}
	// fresh, identifiable return values
	var dg uint64
	for _, k := range inv.Keys {
		dg = dg*1099511628211 + uint64(k) + inv.Reps[k].Serial
	}
	inv.RetRep = &puppet.Rep{Call: m.Token, Node: 0, Serial: uint64(idx), Digest: dg, Idx: uint32(len(inv.Keys))}
	inv.RetAgg = &puppet.Agg{Call: m.Token, Count: uint32(len(inv.Keys)), Digest: dg, Level: int32(inv.Level)}
	// the invocation becomes visible to the harness only when it is complete (verdict and return values set)
	m.mu.Lock()
	m.invs = append(m.invs, inv)
	m.mu.Unlock()
	if m.Notify != nil {
		select {
		case m.Notify <- idx:
		default:
		}
	}
	return inv
}

func (q *QSpec) QCQF(in *puppet.Req, r map[uint32]*puppet.Rep) (*puppet.Rep, bool) {
	i := q.run("QC", in, r)
	return i.RetRep, i.Quorum
}
func (q *QSpec) QCPNQF(in *puppet.Req, r map[uint32]*puppet.Rep) (*puppet.Rep, bool) {
	i := q.run("QCPN", in, r)
	return i.RetRep, i.Quorum
}
func (q *QSpec) QCCustomQF(in *puppet.Req, r map[uint32]*puppet.Rep) (*puppet.Agg, bool) {
	i := q.run("QCCustom", in, r)
	return i.RetAgg, i.Quorum
}
func (q *QSpec) QCComboQF(in *puppet.Req, r map[uint32]*puppet.Rep) (*puppet.Agg, bool) {
	i := q.run("QCCombo", in, r)
	return i.RetAgg, i.Quorum
}
func (q *QSpec) AsyncQF(in *puppet.Req, r map[uint32]*puppet.Rep) (*puppet.Rep, bool) {
	i := q.run("Async", in, r)
	return i.RetRep, i.Quorum
}
func (q *QSpec) AsyncPNQF(in *puppet.Req, r map[uint32]*puppet.Rep) (*puppet.Rep, bool) {
	i := q.run("AsyncPN", in, r)
	return i.RetRep, i.Quorum
}
func (q *QSpec) AsyncCustomQF(in *puppet.Req, r map[uint32]*puppet.Rep) (*puppet.Agg, bool) {
	i := q.run("AsyncCustom", in, r)
	return i.RetAgg, i.Quorum
}
func (q *QSpec) AsyncComboQF(in *puppet.Req, r map[uint32]*puppet.Rep) (*puppet.Agg, bool) {
	i := q.run("AsyncCombo", in, r)
	return i.RetAgg, i.Quorum
}
func (q *QSpec) CorrQF(in *puppet.Req, r map[uint32]*puppet.Rep) (*puppet.Rep, int, bool) {
	i := q.run("Corr", in, r)
	return i.RetRep, i.Level, i.Quorum
}
func (q *QSpec) CorrPNQF(in *puppet.Req, r map[uint32]*puppet.Rep) (*puppet.Rep, int, bool) {
	i := q.run("CorrPN", in, r)
	return i.RetRep, i.Level, i.Quorum
}
func (q *QSpec) CorrCustomQF(in *puppet.Req, r map[uint32]*puppet.Rep) (*puppet.Agg, int, bool) {
	i := q.run("CorrCustom", in, r)
	return i.RetAgg, i.Level, i.Quorum
}
func (q *QSpec) CorrComboQF(in *puppet.Req, r map[uint32]*puppet.Rep) (*puppet.Agg, int, bool) {
	i := q.run("CorrCombo", in, r)
	return i.RetAgg, i.Level, i.Quorum
}
func (q *QSpec) CorrStreamQF(in *puppet.Req, r map[uint32]*puppet.Rep) (*puppet.Rep, int, bool) {
	i := q.run("CorrStream", in, r)
	return i.RetRep, i.Level, i.Quorum
}
func (q *QSpec) CorrStreamPNQF(in *puppet.Req, r map[uint32]*puppet.Rep) (*puppet.Rep, int, bool) {
	i := q.run("CorrStreamPN", in, r)
	return i.RetRep, i.Level, i.Quorum
}
func (q *QSpec) CorrStreamCustomQF(in *puppet.Req, r map[uint32]*puppet.Rep) (*puppet.Agg, int, bool) {
	i := q.run("CorrStreamCustom", in, r)
	return i.RetAgg, i.Level, i.Quorum
}
func (q *QSpec) CorrStreamComboQF(in *puppet.Req, r map[uint32]*puppet.Rep) (*puppet.Agg, int, bool) {
	i := q.run("CorrStreamCombo", in, r)
	return i.RetAgg, i.Level, i.Quorum
}

var _ puppet.QuorumSpec = (*QSpec)(nil)

// PureQSpec is a quorum specification without shared state, for race runs:
// the threshold travels in the request's kind field (0 = all replies seen so far suffice never).
type PureQSpec struct{}

func pureRep(in *puppet.Req, r map[uint32]*puppet.Rep) (*puppet.Rep, int, bool) {
	var any *puppet.Rep
	for _, v := range r {
		any = v
		break
	}
	th := int(in.GetKind())
	return any, len(r), th > 0 && len(r) >= th
}
func pureAgg(in *puppet.Req, r map[uint32]*puppet.Rep) (*puppet.Agg, int, bool) {
	th := int(in.GetKind())
	return &puppet.Agg{Call: in.GetCall(), Count: uint32(len(r))}, len(r), th > 0 && len(r) >= th
}
func (PureQSpec) QCQF(in *puppet.Req, r map[uint32]*puppet.Rep) (*puppet.Rep, bool) {
	a, _, q := pureRep(in, r)
	return a, q
}
func (PureQSpec) QCPNQF(in *puppet.Req, r map[uint32]*puppet.Rep) (*puppet.Rep, bool) {
	a, _, q := pureRep(in, r)
	return a, q
}
func (PureQSpec) QCCustomQF(in *puppet.Req, r map[uint32]*puppet.Rep) (*puppet.Agg, bool) {
	a, _, q := pureAgg(in, r)
	return a, q
}
func (PureQSpec) QCComboQF(in *puppet.Req, r map[uint32]*puppet.Rep) (*puppet.Agg, bool) {
	a, _, q := pureAgg(in, r)
	return a, q
}
func (PureQSpec) AsyncQF(in *puppet.Req, r map[uint32]*puppet.Rep) (*puppet.Rep, bool) {
	a, _, q := pureRep(in, r)
	return a, q
}
func (PureQSpec) AsyncPNQF(in *puppet.Req, r map[uint32]*puppet.Rep) (*puppet.Rep, bool) {
	a, _, q := pureRep(in, r)
	return a, q
}
func (PureQSpec) AsyncCustomQF(in *puppet.Req, r map[uint32]*puppet.Rep) (*puppet.Agg, bool) {
	a, _, q := pureAgg(in, r)
	return a, q
}
func (PureQSpec) AsyncComboQF(in *puppet.Req, r map[uint32]*puppet.Rep) (*puppet.Agg, bool) {
	a, _, q := pureAgg(in, r)
	return a, q
}
func (PureQSpec) CorrQF(in *puppet.Req, r map[uint32]*puppet.Rep) (*puppet.Rep, int, bool) {
	return pureRep(in, r)
}
func (PureQSpec) CorrPNQF(in *puppet.Req, r map[uint32]*puppet.Rep) (*puppet.Rep, int, bool) {
	return pureRep(in, r)
}
func (PureQSpec) CorrCustomQF(in *puppet.Req, r map[uint32]*puppet.Rep) (*puppet.Agg, int, bool) {
	return pureAgg(in, r)
}
func (PureQSpec) CorrComboQF(in *puppet.Req, r map[uint32]*puppet.Rep) (*puppet.Agg, int, bool) {
	return pureAgg(in, r)
}
func (PureQSpec) CorrStreamQF(in *puppet.Req, r map[uint32]*puppet.Rep) (*puppet.Rep, int, bool) {
	return pureRep(in, r)
}
func (PureQSpec) CorrStreamPNQF(in *puppet.Req, r map[uint32]*puppet.Rep) (*puppet.Rep, int, bool) {
	return pureRep(in, r)
}
func (PureQSpec) CorrStreamCustomQF(in *puppet.Req, r map[uint32]*puppet.Rep) (*puppet.Agg, int, bool) {
	return pureAgg(in, r)
}
func (PureQSpec) CorrStreamComboQF(in *puppet.Req, r map[uint32]*puppet.Rep) (*puppet.Agg, int, bool) {
	return pureAgg(in, r)
}

var _ puppet.QuorumSpec = PureQSpec{}
