// Package h is the harness core: puppet servers, clusters, the monitored
// quorum specification, the hook consumer, fault proxy and the hang rule.
package h

import (
	"context"
	"encoding/binary"
	"errors"
	"fmt"
	"hash/fnv"
	"net"
	"sync"
	"sync/atomic"
	"syscall"
	"time"

	"verif/internal/gen/puppet"

	"github.com/relab/gorums"
	"google.golang.org/grpc/metadata"
)

// Entry is the event a puppet handler records at entry, before anything else.
type Entry struct {
	Server int    `json:"server"`
	Node   uint32 `json:"node"`
	Conn   uint64 `json:"conn"`
	Serial uint64 `json:"serial"`
	Method string `json:"method"`
	Call   uint64 `json:"call"`
	Seq    uint64 `json:"seq"`
	Kind   uint32 `json:"kind"`
	Target uint32 `json:"target"`
	Digest uint64 `json:"digest"`
	Gen    int    `json:"gen"` // server incarnation (restarts)
}

// Digest is a hash of everything in a request that the receiver can see.
func Digest(r *puppet.Req) uint64 {
	if r == nil {
		return 0
	}
	h := fnv.New64a()
	var b [8]byte
	for _, v := range []uint64{r.GetCall(), r.GetSeq(), uint64(r.GetTarget()), uint64(r.GetKind()), uint64(len(r.GetScript())), uint64(len(r.GetPad()))} {
		binary.LittleEndian.PutUint64(b[:], v)
		h.Write(b[:])
	}
	h.Write(r.GetScript())
	h.Write(r.GetPad())
	return h.Sum64()
}

// HCall is one running puppet handler.
type HCall struct {
	S      *Srv
	Ctx    *gorums.ServerCtx
	Method string
	Req    *puppet.Req
	E      Entry
	// Send is non-nil for server-stream methods.
	Send func(*puppet.Rep) error
}

// Rep returns the stamped reply for stream index idx.
func (c *HCall) Rep(idx uint32) *puppet.Rep {
	return &puppet.Rep{Call: c.Req.GetCall(), Node: c.E.Node, Serial: c.E.Serial, Conn: c.E.Conn, Idx: idx, Digest: c.E.Digest}
}

// Behaviour decides what a puppet handler does. One-way handlers ignore the results.
type Behaviour func(c *HCall) (*puppet.Rep, error)

// ConnInfo describes one accepted server-side stream.
type ConnInfo struct {
	ID        uint64
	Gen       int
	MD        metadata.MD
	Callbacks int
	Handlers  int
	Ctx       context.Context `json:"-"`
}

// Srv is a puppet server.
type Srv struct {
	Index  int
	NodeID uint32
	Addr   string // listen address
	Pure   bool   // no shared state in handlers (race runs)
	Opts   []gorums.ServerOption

	mu       sync.Mutex
	serial   uint64
	log      []Entry
	conns    map[context.Context]*ConnInfo
	connList []*ConnInfo
	nextConn uint64
	gen      int
	orphan   int // handlers whose stream context never saw the connect callback
	behave   atomic.Pointer[Behaviour]
	gs       *gorums.Server
	lis      net.Listener
	done     chan struct{} // closed when the current incarnation stops
	entered  atomic.Int64
	resv     int // fd of a bound, never listening socket that keeps the port for the whole life of the server (-1: none)
}

// reservePort binds a socket to 127.0.0.1:0 and keeps it for the whole life of the server (it never listens).
// The socket gets SO_REUSEPORT after the bind, and every listener of this server is created with SO_REUSEPORT too,
// so listeners can come and go on the port while nobody else can get it: a stopped server refuses connections,
// a restarted one listens on the same address, and there is no instant at which the port is free.
func reservePort() (fd int, addr string, err error) {
	fd, err = syscall.Socket(syscall.AF_INET, syscall.SOCK_STREAM, 0)
	if err != nil {
		return -1, "", err
	}
	sa := &syscall.SockaddrInet4{Port: 0, Addr: [4]byte{127, 0, 0, 1}}
	if err = syscall.Bind(fd, sa); err != nil {
		syscall.Close(fd)
		return -1, "", err
	}
	got, err := syscall.Getsockname(fd)
	if err != nil {
		syscall.Close(fd)
		return -1, "", err
	}
	syscall.SetsockoptInt(fd, syscall.SOL_SOCKET, syscall.SO_REUSEADDR, 1)
	if err = syscall.SetsockoptInt(fd, syscall.SOL_SOCKET, soReusePort, 1); err != nil {
		syscall.Close(fd)
		return -1, "", err
	}
	return fd, fmt.Sprintf("127.0.0.1:%d", got.(*syscall.SockaddrInet4).Port), nil
}

const soReusePort = 0xf // SO_REUSEPORT on linux

func listenReuse(addr string) (net.Listener, error) {
	lc := net.ListenConfig{Control: func(network, address string, c syscall.RawConn) error {
		var serr error
		c.Control(func(fd uintptr) {
			syscall.SetsockoptInt(int(fd), syscall.SOL_SOCKET, syscall.SO_REUSEADDR, 1)
			serr = syscall.SetsockoptInt(int(fd), syscall.SOL_SOCKET, soReusePort, 1)
		})
		return serr
	}}
	return lc.Listen(context.Background(), "tcp", addr)
}

func (s *Srv) unreserve() {
	s.mu.Lock()
	fd := s.resv
	s.resv = -1
	s.mu.Unlock()
	if fd >= 0 {
		syscall.Close(fd)
	}
}

// Release frees the port reservation of a stopped server (teardown).
func (s *Srv) Release() { s.unreserve() }

// DefaultBehaviour replies at once.
func DefaultBehaviour(c *HCall) (*puppet.Rep, error) {
	if c.Send != nil {
		return nil, c.Send(c.Rep(0))
	}
	return c.Rep(0), nil
}

// NewSrv creates a server listening on addr ("127.0.0.1:0" for any port).
func NewSrv(index int, nodeID uint32, addr string, pure bool, opts ...gorums.ServerOption) (*Srv, error) {
	s := &Srv{Index: index, NodeID: nodeID, Pure: pure, Opts: opts, conns: map[context.Context]*ConnInfo{}, resv: -1}
	b := Behaviour(DefaultBehaviour)
	s.behave.Store(&b)
	var fd int
	var a string
	var err error
	for try := 0; try < 40; try++ { // ride out a momentary shortage of ports
		if fd, a, err = reservePort(); err == nil {
			break
		}
		time.Sleep(50 * time.Millisecond)
	}
	if err != nil {
		return nil, err
	}
	s.resv, s.Addr = fd, a
	lis, err := listenReuse(s.Addr)
	if err != nil {
		s.unreserve()
		return nil, err
	}
	s.start(lis)
	return s, nil
}

func (s *Srv) start(lis net.Listener) {
	opts := append([]gorums.ServerOption{}, s.Opts...)
	if !s.Pure {
		opts = append(opts, gorums.WithConnectCallback(s.onConnect))
	}
	gs := gorums.NewServer(opts...)
	puppet.RegisterPuppetServer(gs, (*impl)(s))
	s.mu.Lock()
	s.gs, s.lis = gs, lis
	s.gen++
	s.done = make(chan struct{})
	s.mu.Unlock()
	go gs.Serve(lis)
}

// Stop stops the current incarnation (connections are torn down).
func (s *Srv) Stop() {
	s.mu.Lock()
	gs, done := s.gs, s.done
	s.gs = nil
	s.mu.Unlock()
	if gs != nil {
		// tear the connections down first: parked handlers must not get an answer out before the crash
		gs.Stop()
		close(done)
	}
}

// Running reports whether an incarnation is serving.
func (s *Srv) Running() bool {
	s.mu.Lock()
	defer s.mu.Unlock()
	return s.gs != nil
}

// Restart starts a fresh gorums.Server on the same address.
func (s *Srv) Restart() error {
	var lis net.Listener
	var err error
	for i := 0; i < 50; i++ {
		lis, err = listenReuse(s.Addr)
		if err == nil {
			break
		}
		time.Sleep(10 * time.Millisecond)
	}
	if err != nil {
		return err
	}
	s.start(lis)
	return nil
}

// Done returns a channel closed when the current incarnation stops.
func (s *Srv) Done() <-chan struct{} {
	s.mu.Lock()
	defer s.mu.Unlock()
	return s.done
}

// SetBehaviour installs b for all subsequent handler entries.
func (s *Srv) SetBehaviour(b Behaviour) {
	if b == nil {
		b = DefaultBehaviour
	}
	s.behave.Store(&b)
}

func (s *Srv) onConnect(ctx context.Context) {
	md, _ := metadata.FromIncomingContext(ctx)
	s.mu.Lock()
	defer s.mu.Unlock()
	ci := s.conns[ctx]
	if ci == nil {
		s.nextConn++
		ci = &ConnInfo{ID: s.nextConn, Gen: s.gen, MD: md.Copy(), Ctx: ctx}
		s.conns[ctx] = ci
		s.connList = append(s.connList, ci)
	}
	ci.Callbacks++
}

// Log returns a copy of the entry log.
func (s *Srv) Log() []Entry {
	s.mu.Lock()
	defer s.mu.Unlock()
	return append([]Entry(nil), s.log...)
}

// LogLen returns the number of entries so far.
func (s *Srv) LogLen() int {
	s.mu.Lock()
	defer s.mu.Unlock()
	return len(s.log)
}

// Entered returns the number of handler entries so far (also in pure mode).
func (s *Srv) Entered() int64 { return s.entered.Load() }

// Conns returns a snapshot of the accepted streams.
func (s *Srv) Conns() []ConnInfo {
	s.mu.Lock()
	defer s.mu.Unlock()
	out := make([]ConnInfo, len(s.connList))
	for i, c := range s.connList {
		out[i] = *c
	}
	return out
}

// Orphans returns the number of handlers that ran on a stream whose connect
// callback had not been invoked before.
func (s *Srv) Orphans() int {
	s.mu.Lock()
	defer s.mu.Unlock()
	return s.orphan
}

// ResetLog clears the entry log (not the connection table).
func (s *Srv) ResetLog() {
	s.mu.Lock()
	defer s.mu.Unlock()
	s.log = nil
}

func (s *Srv) handle(ctx gorums.ServerCtx, method string, req *puppet.Req, send func(*puppet.Rep) error) (*puppet.Rep, error) {
	c := &HCall{S: s, Ctx: &ctx, Method: method, Req: req, Send: send}
	c.E = Entry{Server: s.Index, Node: s.NodeID, Method: method, Call: req.GetCall(), Seq: req.GetSeq(), Kind: req.GetKind(), Target: req.GetTarget(), Digest: Digest(req)}
	if !s.Pure {
		s.entered.Add(1)
		s.mu.Lock()
		s.serial++
		c.E.Serial = s.serial
		c.E.Gen = s.gen
		if ci := s.conns[ctx.Context]; ci != nil {
			c.E.Conn = ci.ID
			ci.Handlers++
		} else {
			s.orphan++
		}
		s.log = append(s.log, c.E)
		s.mu.Unlock()
	}
	return (*s.behave.Load())(c)
}

// ErrSilent is returned by silent handlers when they are finally torn down.
var ErrSilent = errors.New("puppet: silent handler torn down")

// impl implements the generated puppet.Puppet interface.
type impl Srv

func (i *impl) s() *Srv { return (*Srv)(i) }

func (i *impl) RPC(ctx gorums.ServerCtx, r *puppet.Req) (*puppet.Rep, error) {
	return i.s().handle(ctx, "RPC", r, nil)
}
func (i *impl) Uni(ctx gorums.ServerCtx, r *puppet.Req)     { i.s().handle(ctx, "Uni", r, nil) }
func (i *impl) Uni2(ctx gorums.ServerCtx, r *puppet.Req)    { i.s().handle(ctx, "Uni2", r, nil) }
func (i *impl) Multi(ctx gorums.ServerCtx, r *puppet.Req)   { i.s().handle(ctx, "Multi", r, nil) }
func (i *impl) MultiPN(ctx gorums.ServerCtx, r *puppet.Req) { i.s().handle(ctx, "MultiPN", r, nil) }
func (i *impl) QC(ctx gorums.ServerCtx, r *puppet.Req) (*puppet.Rep, error) {
	return i.s().handle(ctx, "QC", r, nil)
}
func (i *impl) QCPN(ctx gorums.ServerCtx, r *puppet.Req) (*puppet.Rep, error) {
	return i.s().handle(ctx, "QCPN", r, nil)
}
func (i *impl) QCCustom(ctx gorums.ServerCtx, r *puppet.Req) (*puppet.Rep, error) {
	return i.s().handle(ctx, "QCCustom", r, nil)
}
func (i *impl) QCCombo(ctx gorums.ServerCtx, r *puppet.Req) (*puppet.Rep, error) {
	return i.s().handle(ctx, "QCCombo", r, nil)
}
func (i *impl) Async(ctx gorums.ServerCtx, r *puppet.Req) (*puppet.Rep, error) {
	return i.s().handle(ctx, "Async", r, nil)
}
func (i *impl) AsyncPN(ctx gorums.ServerCtx, r *puppet.Req) (*puppet.Rep, error) {
	return i.s().handle(ctx, "AsyncPN", r, nil)
}
func (i *impl) AsyncCustom(ctx gorums.ServerCtx, r *puppet.Req) (*puppet.Rep, error) {
	return i.s().handle(ctx, "AsyncCustom", r, nil)
}
func (i *impl) AsyncCombo(ctx gorums.ServerCtx, r *puppet.Req) (*puppet.Rep, error) {
	return i.s().handle(ctx, "AsyncCombo", r, nil)
}
func (i *impl) Corr(ctx gorums.ServerCtx, r *puppet.Req) (*puppet.Rep, error) {
	return i.s().handle(ctx, "Corr", r, nil)
}
func (i *impl) CorrPN(ctx gorums.ServerCtx, r *puppet.Req) (*puppet.Rep, error) {
	return i.s().handle(ctx, "CorrPN", r, nil)
}
func (i *impl) CorrCustom(ctx gorums.ServerCtx, r *puppet.Req) (*puppet.Rep, error) {
	return i.s().handle(ctx, "CorrCustom", r, nil)
}
func (i *impl) CorrCombo(ctx gorums.ServerCtx, r *puppet.Req) (*puppet.Rep, error) {
	return i.s().handle(ctx, "CorrCombo", r, nil)
}
func (i *impl) CorrStream(ctx gorums.ServerCtx, r *puppet.Req, send func(*puppet.Rep) error) error {
	_, err := i.s().handle(ctx, "CorrStream", r, send)
	return err
}
func (i *impl) CorrStreamPN(ctx gorums.ServerCtx, r *puppet.Req, send func(*puppet.Rep) error) error {
	_, err := i.s().handle(ctx, "CorrStreamPN", r, send)
	return err
}
func (i *impl) CorrStreamCustom(ctx gorums.ServerCtx, r *puppet.Req, send func(*puppet.Rep) error) error {
	_, err := i.s().handle(ctx, "CorrStreamCustom", r, send)
	return err
}
func (i *impl) CorrStreamCombo(ctx gorums.ServerCtx, r *puppet.Req, send func(*puppet.Rep) error) error {
	_, err := i.s().handle(ctx, "CorrStreamCombo", r, send)
	return err
}

var _ = fmt.Sprintf
