package h

import (
	"fmt"
	"hash/fnv"
	"sync"
	"sync/atomic"
	"time"

	"github.com/relab/gorums"
)

type pk struct {
	point string
	node  uint32
}

// Held is an armed hold: the goroutine that reaches the point blocks until
// Release (or the timeout).
type Held struct {
	point    string
	node     uint32
	skip     int
	reached  chan struct{}
	release  chan struct{}
	timeout  time.Duration
	once     sync.Once
	ronce    sync.Once
	TimedOut atomic.Bool
}

// Reached is closed when a goroutine is parked at the hold.
func (h *Held) Reached() <-chan struct{} { return h.reached }

// Release lets the parked goroutine continue (idempotent).
func (h *Held) Release() { h.once.Do(func() { close(h.release) }) }

// Hooks is the steering / accounting consumer of the verif points.
type Hooks struct {
	mu     sync.Mutex
	cond   *sync.Cond
	counts map[pk]int64
	ntrace map[uint32][]string // per node: recent hook points with time stamps (diagnosis aid for witnesses)
	t0     time.Time
	last   map[pk]time.Time
	points map[string]int64
	holds  []*Held
	delay  atomic.Pointer[func(point string, node uint32, hit int64) time.Duration]
	trace  bool
	events []string
	nholds atomic.Int32
	mmu    sync.Mutex
	mev    map[uint32][]string // per node: recent per-message events (diagnosis aid for witnesses)
}

func (h *Hooks) msgHit(point string, node uint32, msgID uint64) {
	h.mmu.Lock()
	ev := h.mev[node]
	if len(ev) >= 400 {
		ev = ev[200:]
	}
	h.mev[node] = append(ev, fmt.Sprintf("%s#%d", point, msgID))
	h.mmu.Unlock()
}

// MsgEvents returns the recent per-message events of a node (enqueue, write, write error, receive, cancel).
func (h *Hooks) MsgEvents(node uint32) []string {
	h.mmu.Lock()
	defer h.mmu.Unlock()
	return append([]string(nil), h.mev[node]...)
}

var (
	hooksOnce sync.Once
	hooks     *Hooks
)

// InstallHooks installs the (process-wide) steering hook consumer.
func InstallHooks() *Hooks {
	hooksOnce.Do(func() {
		hooks = &Hooks{counts: map[pk]int64{}, last: map[pk]time.Time{}, points: map[string]int64{}, ntrace: map[uint32][]string{}, t0: time.Now()}
		hooks.cond = sync.NewCond(&hooks.mu)
		hooks.mev = map[uint32][]string{}
		gorums.VerifSetHook(hooks.hit)
		gorums.VerifSetMsgHook(hooks.msgHit)
	})
	return hooks
}

func (h *Hooks) hit(point string, node uint32) {
	h.mu.Lock()
	k := pk{point, node}
	h.counts[k]++
	n := h.counts[k]
	if node != 0 && point != "rcv.parked" && point != "rcv.beforeRoute" && point != "rcv.afterRoute" && point != "snd.afterConnect" {
		tr := h.ntrace[node]
		if len(tr) >= 300 {
			tr = tr[150:]
		}
		h.ntrace[node] = append(tr, fmt.Sprintf("%s@%dms", point, time.Since(h.t0).Milliseconds()))
	}
	if point == "rcv.err" || point == "wat.beforeCancel" || point == "con.broken" {
		h.last[k] = time.Now()
	}
	h.points[point]++
	if h.trace && len(h.events) < 4096 {
		h.events = append(h.events, fmt.Sprintf("%s@%d", point, node))
	}
	var held *Held
	if h.nholds.Load() > 0 {
		for i, hd := range h.holds {
			if hd.point == point && (hd.node == node || hd.node == 0) {
				if hd.skip > 0 {
					hd.skip--
					continue
				}
				held = hd
				h.holds = append(h.holds[:i], h.holds[i+1:]...)
				h.nholds.Add(-1)
				break
			}
		}
	}
	h.cond.Broadcast()
	h.mu.Unlock()
	if held != nil {
		held.ronce.Do(func() { close(held.reached) })
		select {
		case <-held.release:
		case <-time.After(held.timeout):
			held.TimedOut.Store(true)
		}
		return
	}
	if d := h.delay.Load(); d != nil {
		if w := (*d)(point, node, n); w > 0 {
			time.Sleep(w)
		} else if w < 0 {
			yield()
		}
	}
}

// Hold arms a hold at point for node (0 = any node), skipping the first skip hits.
func (h *Hooks) Hold(point string, node uint32, skip int, timeout time.Duration) *Held {
	hd := &Held{point: point, node: node, skip: skip, reached: make(chan struct{}), release: make(chan struct{}), timeout: timeout}
	h.mu.Lock()
	h.holds = append(h.holds, hd)
	h.nholds.Add(1)
	h.mu.Unlock()
	return hd
}

// Disarm removes a hold that has not been reached and releases it in any case.
func (h *Hooks) Disarm(hd *Held) {
	h.mu.Lock()
	for i, x := range h.holds {
		if x == hd {
			h.holds = append(h.holds[:i], h.holds[i+1:]...)
			h.nholds.Add(-1)
			break
		}
	}
	h.mu.Unlock()
	hd.Release()
}

// Last returns the time of the last hit of a stream-failure point (rcv.err, wat.beforeCancel, con.broken) on node.
func (h *Hooks) Last(point string, node uint32) time.Time {
	h.mu.Lock()
	defer h.mu.Unlock()
	return h.last[pk{point, node}]
}

// NodeTrace returns the recent hook points hit on node, with millisecond stamps (diagnosis aid).
func (h *Hooks) NodeTrace(node uint32) []string {
	h.mu.Lock()
	defer h.mu.Unlock()
	return append([]string(nil), h.ntrace[node]...)
}

// Count returns the number of hits of point on node.
func (h *Hooks) Count(point string, node uint32) int64 {
	h.mu.Lock()
	defer h.mu.Unlock()
	return h.counts[pk{point, node}]
}

// WaitCount waits until point was hit at least n times on node.
func (h *Hooks) WaitCount(point string, node uint32, n int64, timeout time.Duration) bool {
	deadline := time.Now().Add(timeout)
	t := time.AfterFunc(timeout, func() { h.mu.Lock(); h.cond.Broadcast(); h.mu.Unlock() })
	defer t.Stop()
	h.mu.Lock()
	defer h.mu.Unlock()
	for h.counts[pk{point, node}] < n {
		if time.Now().After(deadline) {
			return false
		}
		h.cond.Wait()
	}
	return true
}

// Points returns hits per point name.
func (h *Hooks) Points() map[string]int64 {
	h.mu.Lock()
	defer h.mu.Unlock()
	m := make(map[string]int64, len(h.points))
	for k, v := range h.points {
		m[k] = v
	}
	return m
}

// SetDelay installs a delay policy (nil removes it). A negative result means Gosched.
func (h *Hooks) SetDelay(f func(point string, node uint32, hit int64) time.Duration) {
	if f == nil {
		h.delay.Store(nil)
		return
	}
	h.delay.Store(&f)
}

// StartTrace begins recording the global order of hook events.
func (h *Hooks) StartTrace() {
	h.mu.Lock()
	h.trace = true
	h.events = nil
	h.mu.Unlock()
}

// StopTrace ends recording and returns the signature (hash) and the events.
func (h *Hooks) StopTrace() (uint64, []string) {
	h.mu.Lock()
	defer h.mu.Unlock()
	h.trace = false
	ev := h.events
	h.events = nil
	f := fnv.New64a()
	for _, e := range ev {
		f.Write([]byte(e))
		f.Write([]byte{0})
	}
	return f.Sum64(), ev
}

// PCT returns a seeded delay policy: most hits pass, a few yield or sleep.
func PCT(seed int64, kase int64) func(point string, node uint32, hit int64) time.Duration {
	return func(point string, node uint32, hit int64) time.Duration {
		f := fnv.New64a()
		fmt.Fprintf(f, "%d/%d/%s/%d/%d", seed, kase, point, node, hit)
		v := f.Sum64() % 1000
		switch {
		case v < 850:
			return 0
		case v < 920:
			return -1
		case v < 970:
			return 50 * time.Microsecond
		case v < 995:
			return 500 * time.Microsecond
		default:
			return 3 * time.Millisecond
		}
	}
}
