package h

import "testing"

const sampleDump = `goroutine 1 [running]:
main.main()
	/x/main.go:10 +0x1

goroutine 42 [select, 2 minutes]:
github.com/relab/gorums.(*channel).enqueue(0xc0000f05b0, {{0xa3fc98, 0xc0005008c0}}, 0xc000b9c690?, 0x0?)
	/repo/channel.go:150 +0x1f
github.com/relab/gorums.RawConfiguration.QuorumCall({0xc0002a99e0, 0x5, 0x5}, {0xa3fc98, 0xc0000d8460})
	/repo/quorumcall.go:40 +0x2a
verif/internal/eng.CallQC(0x41bf16?)
	/verif/internal/eng/common.go:200 +0x33
created by verif/internal/h.Go in goroutine 7
	/verif/internal/h/hang.go:40 +0x1

goroutine 43 [chan send]:
github.com/relab/gorums.(*channel).routeResponse(0xc000294a90, 0x23, {0xce})
	/repo/channel.go:131 +0x1
github.com/relab/gorums.(*channel).receiver(0xc000294a90)
	/repo/channel.go:264 +0x1
created by github.com/relab/gorums.(*channel).newNodeStream in goroutine 1
	/repo/channel.go:110 +0x1

goroutine 44 [select]:
github.com/relab/gorums.(*channel).sender(0xc000294a90)
	/repo/channel.go:223 +0x1
created by github.com/relab/gorums.newChannel in goroutine 1
	/repo/channel.go:81 +0x1
`

func TestParseDump(t *testing.T) {
	gs := ParseDump(sampleDump)
	if len(gs) != 4 {
		t.Fatalf("got %d goroutines", len(gs))
	}
	g := find(gs, 42)
	if g == nil || g.State != "select" || innermostLib(*g) != "(*channel).enqueue" || g.Created != "verif/internal/h.Go" {
		t.Fatalf("goroutine 42 parsed as %+v / %q", g, innermostLib(*g))
	}
	if !parked(g.State) || parked("running") || parked("runnable") || parked("IO wait") {
		t.Fatal("parked() classification")
	}
	// idle states are filtered, the blocked receiver is not
	s := LibSummary(gs, 42)
	if len(s) != 1 || s[0] != "chan send@(*channel).routeResponse" {
		t.Fatalf("summary %v", s)
	}
}
