package h

import (
	"net"
	"sync"
	"sync/atomic"
	"time"
)

// Proxy modes.
const (
	Pass int32 = iota
	Stall
	Refuse
	Tarpit
)

// Proxy is a loopback TCP forwarder with switchable faults.
type Proxy struct {
	Addr     string
	target   string
	lis      net.Listener
	mode     atomic.Int32
	mu       sync.Mutex
	cond     *sync.Cond
	conns    map[net.Conn]struct{}
	closed   bool
	Accepted atomic.Int64
}

// NewProxy starts a proxy in front of target.
func NewProxy(target string) (*Proxy, error) {
	var lis net.Listener
	var err error
	for try := 0; try < 40; try++ {
		if lis, err = net.Listen("tcp", "127.0.0.1:0"); err == nil {
			break
		}
		time.Sleep(50 * time.Millisecond)
	}
	if err != nil {
		return nil, err
	}
	p := &Proxy{Addr: lis.Addr().String(), target: target, lis: lis, conns: map[net.Conn]struct{}{}}
	p.cond = sync.NewCond(&p.mu)
	go p.accept()
	return p, nil
}

// SetMode switches the fault mode for new and (for Stall) existing connections.
func (p *Proxy) SetMode(m int32) {
	p.mu.Lock()
	p.mode.Store(m)
	p.cond.Broadcast()
	p.mu.Unlock()
}

// Reset closes all current connections (both sides).
func (p *Proxy) Reset() {
	p.mu.Lock()
	for c := range p.conns {
		c.Close()
	}
	p.conns = map[net.Conn]struct{}{}
	p.cond.Broadcast()
	p.mu.Unlock()
}

// Close stops the proxy.
func (p *Proxy) Close() {
	p.mu.Lock()
	p.closed = true
	p.mu.Unlock()
	p.lis.Close()
	p.Reset()
}

func (p *Proxy) track(c net.Conn) bool {
	p.mu.Lock()
	defer p.mu.Unlock()
	if p.closed {
		c.Close()
		return false
	}
	p.conns[c] = struct{}{}
	return true
}

func (p *Proxy) accept() {
	for {
		c, err := p.lis.Accept()
		if err != nil {
			return
		}
		p.Accepted.Add(1)
		switch p.mode.Load() {
		case Refuse:
			c.Close()
			continue
		case Tarpit:
			p.track(c)
			continue
		}
		up, err := net.Dial("tcp", p.target)
		if err != nil {
			c.Close()
			continue
		}
		for _, x := range []net.Conn{c, up} { // no TIME-WAIT sockets (see DialOpts)
			if tc, ok := x.(*net.TCPConn); ok {
				tc.SetLinger(0)
			}
		}
		if !p.track(c) || !p.track(up) {
			c.Close()
			up.Close()
			continue
		}
		go p.pipe(c, up)
		go p.pipe(up, c)
	}
}

func (p *Proxy) pipe(dst, src net.Conn) {
	buf := make([]byte, 32*1024)
	for {
		// while stalled, stop reading: the peer's writes fill the kernel
		// buffers and then block, and nothing is answered.
		p.mu.Lock()
		for p.mode.Load() == Stall && !p.closed {
			if _, ok := p.conns[src]; !ok {
				break
			}
			p.cond.Wait()
		}
		p.mu.Unlock()
		n, err := src.Read(buf)
		if n > 0 {
			if p.mode.Load() == Stall {
				// read completed while the stall began: hold the data until released
				p.mu.Lock()
				for p.mode.Load() == Stall && !p.closed {
					if _, ok := p.conns[src]; !ok {
						break
					}
					p.cond.Wait()
				}
				p.mu.Unlock()
			}
			if _, werr := dst.Write(buf[:n]); werr != nil {
				break
			}
		}
		if err != nil {
			break
		}
	}
	dst.Close()
	src.Close()
	p.mu.Lock()
	delete(p.conns, dst)
	delete(p.conns, src)
	p.mu.Unlock()
}
