package h

import (
	"context"
	"fmt"
	"net"
	"sync/atomic"
	"time"

	"verif/internal/gen/puppet"

	"github.com/relab/gorums"
	"google.golang.org/grpc"
	"google.golang.org/grpc/backoff"
	"google.golang.org/grpc/credentials/insecure"
	"google.golang.org/grpc/metadata"
)

var (
	nextNodeID atomic.Uint32
	nextToken  atomic.Uint64
)

func init() { nextNodeID.Store(100) }

// NewNodeID returns a process-unique node id.
func NewNodeID() uint32 { return nextNodeID.Add(1) }

// NewToken returns a process-unique call token.
func NewToken() uint64 { return nextToken.Add(1) }

// Options configures a cluster.
type Options struct {
	N           int
	SendBuffer  uint
	Backoff     *backoff.Config
	DialTimeout time.Duration
	Proxies     bool
	Block       bool
	MD          metadata.MD
	PerNodeMD   func(uint32) metadata.MD
	Pure        bool
	Down        []int // servers stopped before the manager is created
	ServerOpts  []gorums.ServerOption
	QSpec       puppet.QuorumSpec
	ExtraMgr    []gorums.ManagerOption
	NoManager   bool
}

// Cluster is n puppet servers plus one manager and the full configuration.
type Cluster struct {
	Opt     Options
	Srvs    []*Srv
	Proxies []*Proxy
	IDs     []uint32
	Addrs   []string // what the client dials (proxy or server)
	Mgr     *puppet.Manager
	Cfg     *puppet.Configuration
	QS      *QSpec
}

// DialOpts returns the gRPC dial options of the harness: plaintext, and a dialer whose connections are closed with
// SO_LINGER 0 (RST instead of FIN). Thousands of short-lived clusters would otherwise leave tens of thousands of
// TIME-WAIT sockets behind and exhaust the ephemeral port range for the checks that run next.
func DialOpts() []grpc.DialOption {
	return []grpc.DialOption{
		grpc.WithTransportCredentials(insecure.NewCredentials()),
		grpc.WithContextDialer(func(ctx context.Context, addr string) (net.Conn, error) {
			var d net.Dialer
			c, err := d.DialContext(ctx, "tcp", addr)
			if err != nil {
				return nil, err
			}
			if tc, ok := c.(*net.TCPConn); ok {
				tc.SetLinger(0)
			}
			return c, nil
		}),
	}
}

// MgrOptions returns the manager options for this cluster's settings.
func (c *Cluster) MgrOptions() []gorums.ManagerOption {
	o := c.Opt
	dial := DialOpts()
	if o.Block {
		dial = append(dial, grpc.WithBlock())
	}
	mo := []gorums.ManagerOption{gorums.WithGrpcDialOptions(dial...)}
	if o.DialTimeout > 0 {
		mo = append(mo, gorums.WithDialTimeout(o.DialTimeout))
	}
	if o.SendBuffer > 0 {
		mo = append(mo, gorums.WithSendBufferSize(o.SendBuffer))
	}
	if o.Backoff != nil {
		mo = append(mo, gorums.WithBackoff(*o.Backoff))
	}
	if o.MD != nil {
		mo = append(mo, gorums.WithMetadata(o.MD))
	}
	if o.PerNodeMD != nil {
		mo = append(mo, gorums.WithPerNodeMetadata(o.PerNodeMD))
	}
	return append(mo, o.ExtraMgr...)
}

// NodeMap returns address -> id for the whole cluster.
func (c *Cluster) NodeMap() map[string]uint32 {
	m := map[string]uint32{}
	for i, a := range c.Addrs {
		m[a] = c.IDs[i]
	}
	return m
}

// NewCluster starts servers (and proxies), then the manager and configuration.
func NewCluster(o Options) (*Cluster, error) {
	c := &Cluster{Opt: o, QS: &QSpec{}}
	for i := 0; i < o.N; i++ {
		id := NewNodeID()
		s, err := NewSrv(i, id, "127.0.0.1:0", o.Pure, o.ServerOpts...)
		if err != nil {
			c.Close()
			return nil, err
		}
		c.Srvs = append(c.Srvs, s)
		c.IDs = append(c.IDs, id)
		addr := s.Addr
		if o.Proxies {
			p, err := NewProxy(s.Addr)
			if err != nil {
				c.Close()
				return nil, err
			}
			c.Proxies = append(c.Proxies, p)
			addr = p.Addr
		}
		c.Addrs = append(c.Addrs, addr)
	}
	for _, d := range o.Down {
		c.Srvs[d].Stop()
	}
	if o.NoManager {
		return c, nil
	}
	c.Mgr = puppet.NewManager(c.MgrOptions()...)
	var qs puppet.QuorumSpec = c.QS
	if o.QSpec != nil {
		qs = o.QSpec
	}
	cfg, err := c.Mgr.NewConfiguration(gorums.WithNodeMap(c.NodeMap()), qs)
	if err != nil {
		c.Close()
		return nil, fmt.Errorf("NewConfiguration: %w", err)
	}
	c.Cfg = cfg
	return c, nil
}

// Index returns the server index of node id (or -1).
func (c *Cluster) Index(id uint32) int {
	for i, x := range c.IDs {
		if x == id {
			return i
		}
	}
	return -1
}

// Node returns the generated node for server index i.
func (c *Cluster) Node(i int) *puppet.Node {
	for _, n := range c.Cfg.Nodes() {
		if n.ID() == c.IDs[i] {
			return n
		}
	}
	return nil
}

// SubConfig returns a configuration over the given server indices.
func (c *Cluster) SubConfig(idx []int, qs puppet.QuorumSpec) (*puppet.Configuration, error) {
	ids := make([]uint32, len(idx))
	for i, x := range idx {
		ids[i] = c.IDs[x]
	}
	if qs == nil {
		qs = c.QS
	}
	return c.Mgr.NewConfiguration(gorums.WithNodeIDs(ids), qs)
}

// SetBehaviour installs b on every server.
func (c *Cluster) SetBehaviour(b Behaviour) {
	for _, s := range c.Srvs {
		s.SetBehaviour(b)
	}
}

// Close tears the cluster down; the manager is closed from a disposable goroutine.
func (c *Cluster) Close() {
	if c.Mgr != nil {
		m := c.Mgr
		t := Go("mgr.Close", func() { m.Close() })
		select {
		case <-t.Done:
		case <-time.After(3 * time.Second):
		}
	}
	for _, s := range c.Srvs {
		s.Stop()
		s.Release()
	}
	for _, p := range c.Proxies {
		p.Close()
	}
}
