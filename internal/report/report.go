// Package report collects what a check observed, applies the known-findings
// file, writes the evidence file and prints the verdict lines.
package report

import (
	"encoding/json"
	"fmt"
	"hash/fnv"
	"os"
	"path/filepath"
	"sort"
	"strings"
	"sync"
	"time"
)

// Violation is one observed violation of a property.
type Violation struct {
	Property string `json:"property"`
	// Sig is the canonical signature of the failing input / call site /
	// history shape; known findings are matched on it.
	Sig    string `json:"sig"`
	What   string `json:"what"`
	Detail any    `json:"detail,omitempty"`
}

// Run accumulates the observations of one check run (possibly merged from
// several child processes).
type Run struct {
	Property string `json:"property"`
	Tier     string `json:"tier"`
	Seed     int64  `json:"seed"`
	Level    string `json:"level"`
	Rule     string `json:"rule"`

	mu           sync.Mutex
	Evals        int                       `json:"evals"`
	Distinct     map[uint64]int            `json:"distinct"`
	Samples      []any                     `json:"samples"`
	Counters     map[string]int64          `json:"counters"`
	Sets         map[string]map[string]int `json:"sets"`
	Violations   []Violation               `json:"violations"`
	Inconclusive []string                  `json:"inconclusive"`
	Notes        []string                  `json:"notes"`
	Assumptions  []string                  `json:"assumptions"`
	MaxSamples   int                       `json:"-"`
	nviol        int                       // violations observed (also those not listed because their signature is already listed 3 times)
	start        time.Time
}

// New creates a run.
func New(prop, tier string, seed int64, level string) *Run {
	return &Run{Property: prop, Tier: tier, Seed: seed, Level: level,
		Distinct: map[uint64]int{}, Counters: map[string]int64{}, Sets: map[string]map[string]int{},
		MaxSamples: 8, start: time.Now()}
}

func hash(s string) uint64 {
	h := fnv.New64a()
	h.Write([]byte(s))
	return h.Sum64()
}

// Eval records one evaluated case. sig identifies the case for the
// distinct count; it is only counted when nontrivial.
func (r *Run) Eval(sig string, nontrivial bool) {
	r.mu.Lock()
	defer r.mu.Unlock()
	r.Evals++
	if nontrivial {
		r.Distinct[hash(sig)]++
	}
}

// Sample stores an example case (bounded).
func (r *Run) Sample(s any) {
	r.mu.Lock()
	defer r.mu.Unlock()
	if len(r.Samples) < r.MaxSamples {
		r.Samples = append(r.Samples, s)
	}
}

// Count adds n to a named counter.
func (r *Run) Count(key string, n int64) {
	r.mu.Lock()
	defer r.mu.Unlock()
	r.Counters[key] += n
}

// Max keeps the maximum of a named counter.
func (r *Run) Max(key string, n int64) {
	r.mu.Lock()
	defer r.mu.Unlock()
	if n > r.Counters[key] {
		r.Counters[key] = n
	}
}

// Seen records that value was observed for the named set (bounded to 64 values).
func (r *Run) Seen(set, value string) {
	r.mu.Lock()
	defer r.mu.Unlock()
	m := r.Sets[set]
	if m == nil {
		m = map[string]int{}
		r.Sets[set] = m
	}
	if _, ok := m[value]; !ok && len(m) >= 64 {
		m["(other)"]++
		return
	}
	m[value]++
}

// Violate records a violation.
func (r *Run) Violate(sig, what string, detail any) {
	r.mu.Lock()
	defer r.mu.Unlock()
	r.nviol++
	if len(r.Violations) >= 400 {
		return
	}
	same := 0
	for _, v := range r.Violations {
		if v.Sig == sig {
			same++
		}
	}
	if same >= 3 { // a few instances per signature suffice; keep room for other signatures
		r.Counters["violations_not_listed."+sig]++
		return
	}
	r.Violations = append(r.Violations, Violation{Property: r.Property, Sig: sig, What: what, Detail: detail})
}

// NumViolations returns the number of violations so far.
func (r *Run) NumViolations() int {
	r.mu.Lock()
	defer r.mu.Unlock()
	return r.nviol
}

// Inconc records an inconclusive case.
func (r *Run) Inconc(why string) {
	r.mu.Lock()
	defer r.mu.Unlock()
	if len(r.Inconclusive) < 100 {
		r.Inconclusive = append(r.Inconclusive, why)
	}
	r.Counters["inconclusive"]++
}

// Note adds a free-text note to the evidence.
func (r *Run) Note(s string) {
	r.mu.Lock()
	defer r.mu.Unlock()
	if len(r.Notes) < 50 {
		r.Notes = append(r.Notes, s)
	}
}

// Assume records an assumption.
func (r *Run) Assume(s string) {
	r.mu.Lock()
	defer r.mu.Unlock()
	for _, a := range r.Assumptions {
		if a == s {
			return
		}
	}
	r.Assumptions = append(r.Assumptions, s)
}

// Merge folds o (e.g. a child's result) into r.
func (r *Run) Merge(o *Run) {
	r.mu.Lock()
	defer r.mu.Unlock()
	r.Evals += o.Evals
	for k, v := range o.Distinct {
		r.Distinct[k] += v
	}
	for _, s := range o.Samples {
		if len(r.Samples) < r.MaxSamples {
			r.Samples = append(r.Samples, s)
		}
	}
	for k, v := range o.Counters {
		if strings.HasPrefix(k, "max.") {
			if v > r.Counters[k] {
				r.Counters[k] = v
			}
		} else {
			r.Counters[k] += v
		}
	}
	for s, m := range o.Sets {
		if r.Sets[s] == nil {
			r.Sets[s] = map[string]int{}
		}
		for k, v := range m {
			r.Sets[s][k] += v
		}
	}
	r.Violations = append(r.Violations, o.Violations...)
	r.Inconclusive = append(r.Inconclusive, o.Inconclusive...)
	r.Notes = append(r.Notes, o.Notes...)
	for _, a := range o.Assumptions {
		dup := false
		for _, b := range r.Assumptions {
			dup = dup || a == b
		}
		if !dup {
			r.Assumptions = append(r.Assumptions, a)
		}
	}
	if o.Rule != "" && r.Rule == "" {
		r.Rule = o.Rule
	}
}

// Save writes the run as JSON (child → parent protocol).
func (r *Run) Save(path string) error {
	r.mu.Lock()
	defer r.mu.Unlock()
	b, err := json.Marshal(r)
	if err != nil {
		return err
	}
	return os.WriteFile(path, b, 0o644)
}

// Load reads a run saved by Save.
func Load(path string) (*Run, error) {
	b, err := os.ReadFile(path)
	if err != nil {
		return nil, err
	}
	r := &Run{}
	if err := json.Unmarshal(b, r); err != nil {
		return nil, err
	}
	if r.Distinct == nil {
		r.Distinct = map[uint64]int{}
	}
	if r.Counters == nil {
		r.Counters = map[string]int64{}
	}
	if r.Sets == nil {
		r.Sets = map[string]map[string]int{}
	}
	return r, nil
}

// Finding is an entry of known_findings.json.
type Finding struct {
	Property  string `json:"property"`
	Signature string `json:"signature"`
	What      string `json:"what"`
	Status    string `json:"status"` // "open" or "fixed"
	Commit    string `json:"commit,omitempty"`
	Line      string `json:"line,omitempty"`
}

// LoadFindings reads the committed known-findings file.
func LoadFindings(path string) ([]Finding, error) {
	b, err := os.ReadFile(path)
	if err != nil {
		if os.IsNotExist(err) {
			return nil, nil
		}
		return nil, err
	}
	var f struct {
		Findings []Finding `json:"findings"`
	}
	if err := json.Unmarshal(b, &f); err != nil {
		return nil, err
	}
	return f.Findings, nil
}

// Finish applies known findings, writes evidence and replay files, prints the
// verdict lines and returns the process exit code. floor is the minimum number
// of evaluations below which the run "observed too little" (exit 3).
func (r *Run) Finish(verifDir string, floor int) int {
	r.mu.Lock()
	defer r.mu.Unlock()
	findings, err := LoadFindings(filepath.Join(verifDir, "known_findings.json"))
	if err != nil {
		fmt.Printf("INFRA: cannot read known_findings.json: %v\n", err)
		return 3
	}
	open := map[string]Finding{}
	for _, f := range findings {
		if f.Property == r.Property && f.Status == "open" {
			open[f.Signature] = f
		}
	}
	var unknown []Violation
	known := map[string]int{}
	for _, v := range r.Violations {
		if _, ok := open[v.Sig]; ok {
			known[v.Sig]++
		} else {
			unknown = append(unknown, v)
		}
	}
	os.MkdirAll(filepath.Join(verifDir, "evidence"), 0o755)
	os.MkdirAll(filepath.Join(verifDir, "replays"), 0o755)

	// evidence
	cov := map[string]any{
		"evaluations":         r.Evals,
		"distinct_nontrivial": len(r.Distinct),
		"rule":                r.Rule,
		"samples":             r.Samples,
		"observed":            r.Counters,
		"observed_sets":       r.Sets,
		"inconclusive":        len(r.Inconclusive),
		"known_findings_hit":  known,
	}
	if len(r.Samples) == 0 {
		cov["samples"] = []any{}
	}
	if len(r.Notes) > 0 {
		cov["notes"] = r.Notes
	}
	if len(r.Inconclusive) > 0 {
		n := r.Inconclusive
		if len(n) > 10 {
			n = n[:10]
		}
		cov["inconclusive_examples"] = n
	}
	ev := map[string]any{
		"property_id": r.Property,
		"tier":        r.Tier,
		"seed":        r.Seed,
		"level":       r.Level,
		"coverage":    cov,
		"assumptions": r.Assumptions,
		"wall_s":      time.Since(r.start).Seconds(),
		"violations":  len(unknown),
	}
	if r.Assumptions == nil {
		ev["assumptions"] = []string{}
	}
	b, _ := json.MarshalIndent(ev, "", " ")
	evPath := filepath.Join(verifDir, "evidence", r.Property+".json")
	if err := os.WriteFile(evPath, b, 0o644); err != nil {
		fmt.Printf("INFRA: cannot write evidence: %v\n", err)
		return 3
	}

	fmt.Printf("%s tier=%s seed=%d evaluations=%d distinct_nontrivial=%d inconclusive=%d wall=%.1fs\n",
		r.Property, r.Tier, r.Seed, r.Evals, len(r.Distinct), len(r.Inconclusive), time.Since(r.start).Seconds())
	keys := make([]string, 0, len(known))
	for k := range known {
		keys = append(keys, k)
	}
	sort.Strings(keys)
	for _, k := range keys {
		fmt.Printf("KNOWN-FINDING: property=%s %s — %s (seen %d×)\n", r.Property, k, open[k].What, known[k])
	}
	if len(unknown) > 0 {
		// group by signature; one replay file per signature (first instance)
		seen := map[string]bool{}
		n := 0
		for _, v := range unknown {
			if seen[v.Sig] {
				continue
			}
			seen[v.Sig] = true
			n++
			p := filepath.Join(verifDir, "replays", fmt.Sprintf("%s-%d-%d.json", r.Property, r.Seed, n))
			rb, _ := json.MarshalIndent(map[string]any{"property": r.Property, "tier": r.Tier, "seed": r.Seed, "violation": v}, "", " ")
			os.WriteFile(p, rb, 0o644)
			fmt.Printf("VIOLATION property=%s replay=%s\n", r.Property, p)
			fmt.Printf("  signature: %s\n  what: %s\n", v.Sig, v.What)
		}
		return 1
	}
	if r.Evals < floor {
		fmt.Printf("INFRA: observed too little (%d evaluations < floor %d)\n", r.Evals, floor)
		return 3
	}
	if len(r.Distinct) < 2 {
		fmt.Printf("INFRA: fewer than 2 distinct non-trivial cases observed\n")
		return 3
	}
	return 0
}
