// Package svcdesc builds FileDescriptorProtos for gorums services
// programmatically (there is no protoc on this image).
package svcdesc

import (
	"github.com/relab/gorums"
	"google.golang.org/protobuf/proto"
	"google.golang.org/protobuf/runtime/protoimpl"
	"google.golang.org/protobuf/types/descriptorpb"
)

// Field is a scalar field of a synthesized message.
type Field struct {
	Name   string
	Number int32
	Type   descriptorpb.FieldDescriptorProto_Type
	Rep    bool
	// TypeName for message-typed fields (fully qualified, leading dot).
	TypeName string
}

// Message is a synthesized message.
type Message struct {
	Name   string
	Fields []Field
}

// Opts are the gorums method options; a nil pointer means "not set".
type Opts struct {
	RPC, Unicast, Multicast, Quorumcall, Correctable, Async, PerNodeArg bool
	Custom                                                              string
	// False lists boolean options that are present with the explicit value false
	// ("rpc", "unicast", "multicast", "quorumcall", "correctable", "async", "per_node_arg").
	False []string
}

// Method is a synthesized service method. In/Out are fully-qualified message
// names with a leading dot (".pkg.Msg").
type Method struct {
	Name         string
	In, Out      string
	ClientStream bool
	ServerStream bool
	Opts         Opts
}

// Service is a synthesized service.
type Service struct {
	Name    string
	Methods []Method
}

// File is a synthesized proto file.
type File struct {
	Name      string // e.g. "puppet.proto"
	Package   string
	GoPackage string // go_package option
	Deps      []string
	Messages  []Message
	Services  []Service
}

func (o Opts) proto() *descriptorpb.MethodOptions {
	mo := &descriptorpb.MethodOptions{}
	any := false
	set := func(b bool, ext interface { /* *protoimpl.ExtensionInfo */
	}) {
	}
	_ = set
	if o.RPC {
		proto.SetExtension(mo, gorums.E_Rpc, true)
		any = true
	}
	if o.Unicast {
		proto.SetExtension(mo, gorums.E_Unicast, true)
		any = true
	}
	if o.Multicast {
		proto.SetExtension(mo, gorums.E_Multicast, true)
		any = true
	}
	if o.Quorumcall {
		proto.SetExtension(mo, gorums.E_Quorumcall, true)
		any = true
	}
	if o.Correctable {
		proto.SetExtension(mo, gorums.E_Correctable, true)
		any = true
	}
	if o.Async {
		proto.SetExtension(mo, gorums.E_Async, true)
		any = true
	}
	if o.PerNodeArg {
		proto.SetExtension(mo, gorums.E_PerNodeArg, true)
		any = true
	}
	if o.Custom != "" {
		proto.SetExtension(mo, gorums.E_CustomReturnType, o.Custom)
		any = true
	}
	for _, name := range o.False {
		ext := map[string]*protoimpl.ExtensionInfo{"rpc": gorums.E_Rpc, "unicast": gorums.E_Unicast, "multicast": gorums.E_Multicast, "quorumcall": gorums.E_Quorumcall,
			"correctable": gorums.E_Correctable, "async": gorums.E_Async, "per_node_arg": gorums.E_PerNodeArg}[name]
		if ext != nil {
			proto.SetExtension(mo, ext, false)
			any = true
		}
	}
	if !any {
		return nil
	}
	return mo
}

// Proto converts f to a FileDescriptorProto (proto3 syntax).
func (f File) Proto() *descriptorpb.FileDescriptorProto {
	fd := &descriptorpb.FileDescriptorProto{
		Name:       proto.String(f.Name),
		Package:    proto.String(f.Package),
		Syntax:     proto.String("proto3"),
		Dependency: append([]string(nil), f.Deps...),
		Options:    &descriptorpb.FileOptions{GoPackage: proto.String(f.GoPackage)},
	}
	for _, m := range f.Messages {
		dm := &descriptorpb.DescriptorProto{Name: proto.String(m.Name)}
		for _, fl := range m.Fields {
			lbl := descriptorpb.FieldDescriptorProto_LABEL_OPTIONAL
			if fl.Rep {
				lbl = descriptorpb.FieldDescriptorProto_LABEL_REPEATED
			}
			df := &descriptorpb.FieldDescriptorProto{
				Name:     proto.String(fl.Name),
				JsonName: proto.String(jsonName(fl.Name)),
				Number:   proto.Int32(fl.Number),
				Label:    lbl.Enum(),
				Type:     fl.Type.Enum(),
			}
			if fl.TypeName != "" {
				df.TypeName = proto.String(fl.TypeName)
			}
			dm.Field = append(dm.Field, df)
		}
		fd.MessageType = append(fd.MessageType, dm)
	}
	for _, s := range f.Services {
		ds := &descriptorpb.ServiceDescriptorProto{Name: proto.String(s.Name)}
		for _, m := range s.Methods {
			dm := &descriptorpb.MethodDescriptorProto{
				Name:       proto.String(m.Name),
				InputType:  proto.String(m.In),
				OutputType: proto.String(m.Out),
				Options:    m.Opts.proto(),
			}
			if m.ClientStream {
				dm.ClientStreaming = proto.Bool(true)
			}
			if m.ServerStream {
				dm.ServerStreaming = proto.Bool(true)
			}
			ds.Method = append(ds.Method, dm)
		}
		fd.Service = append(fd.Service, ds)
	}
	return fd
}

func jsonName(s string) string {
	out := make([]byte, 0, len(s))
	up := false
	for i := 0; i < len(s); i++ {
		c := s[i]
		if c == '_' {
			up = true
			continue
		}
		if up && c >= 'a' && c <= 'z' {
			c -= 'a' - 'A'
		}
		up = false
		out = append(out, c)
	}
	return string(out)
}
