// Package puppetdesc defines the puppet service, the harness' own gorums
// service covering every call type and every documented option combination.
package puppetdesc

import (
	"verif/internal/svcdesc"

	"google.golang.org/protobuf/types/descriptorpb"
)

const (
	// GoPackage is the import path of the generated puppet stubs.
	GoPackage = "verif/internal/gen/puppet"
	FileName  = "puppet.proto"
)

var (
	u64 = descriptorpb.FieldDescriptorProto_TYPE_UINT64
	u32 = descriptorpb.FieldDescriptorProto_TYPE_UINT32
	i32 = descriptorpb.FieldDescriptorProto_TYPE_INT32
	byt = descriptorpb.FieldDescriptorProto_TYPE_BYTES
)

// Methods lists the puppet methods in declaration order.
func Methods() []svcdesc.Method {
	req, rep, emp := ".puppet.Req", ".puppet.Rep", ".puppet.Empty"
	m := func(name, out string, o svcdesc.Opts, stream bool) svcdesc.Method {
		return svcdesc.Method{Name: name, In: req, Out: out, Opts: o, ServerStream: stream}
	}
	O := svcdesc.Opts{}
	qc := svcdesc.Opts{Quorumcall: true}
	as := svcdesc.Opts{Quorumcall: true, Async: true}
	co := svcdesc.Opts{Correctable: true}
	pn := func(o svcdesc.Opts) svcdesc.Opts { o.PerNodeArg = true; return o }
	cu := func(o svcdesc.Opts) svcdesc.Opts { o.Custom = "Agg"; return o }
	return []svcdesc.Method{
		m("RPC", rep, O, false),
		m("Uni", emp, svcdesc.Opts{Unicast: true}, false),
		m("Uni2", emp, svcdesc.Opts{Unicast: true}, false),
		m("Multi", emp, svcdesc.Opts{Multicast: true}, false),
		m("MultiPN", emp, pn(svcdesc.Opts{Multicast: true}), false),
		m("QC", rep, qc, false),
		m("QCPN", rep, pn(qc), false),
		m("QCCustom", rep, cu(qc), false),
		m("QCCombo", rep, cu(pn(qc)), false),
		m("Async", rep, as, false),
		m("AsyncPN", rep, pn(as), false),
		m("AsyncCustom", rep, cu(as), false),
		m("AsyncCombo", rep, cu(pn(as)), false),
		m("Corr", rep, co, false),
		m("CorrPN", rep, pn(co), false),
		m("CorrCustom", rep, cu(co), false),
		m("CorrCombo", rep, cu(pn(co)), false),
		m("CorrStream", rep, co, true),
		m("CorrStreamPN", rep, pn(co), true),
		m("CorrStreamCustom", rep, cu(co), true),
		m("CorrStreamCombo", rep, cu(pn(co)), true),
	}
}

// File returns the puppet service definition.
func File() svcdesc.File {
	return svcdesc.File{
		Name:      FileName,
		Package:   "puppet",
		GoPackage: GoPackage,
		Deps:      []string{"gorums.proto"},
		Messages: []svcdesc.Message{
			{Name: "Req", Fields: []svcdesc.Field{
				{Name: "call", Number: 1, Type: u64},
				{Name: "seq", Number: 2, Type: u64},
				{Name: "target", Number: 3, Type: u32},
				{Name: "kind", Number: 4, Type: u32},
				{Name: "script", Number: 5, Type: byt},
				{Name: "pad", Number: 6, Type: byt},
			}},
			{Name: "Rep", Fields: []svcdesc.Field{
				{Name: "call", Number: 1, Type: u64},
				{Name: "node", Number: 2, Type: u32},
				{Name: "serial", Number: 3, Type: u64},
				{Name: "conn", Number: 4, Type: u64},
				{Name: "idx", Number: 5, Type: u32},
				{Name: "digest", Number: 6, Type: u64},
			}},
			{Name: "Agg", Fields: []svcdesc.Field{
				{Name: "call", Number: 1, Type: u64},
				{Name: "count", Number: 2, Type: u32},
				{Name: "digest", Number: 3, Type: u64},
				{Name: "level", Number: 4, Type: i32},
			}},
			{Name: "Empty"},
		},
		Services: []svcdesc.Service{{Name: "Puppet", Methods: Methods()}},
	}
}
