// Package eng holds the behavioural engines (one per property or family).
package eng

import (
	"context"
	"errors"
	"fmt"
	"math/rand"
	"sync"
	"time"

	"verif/internal/gen/puppet"
	"verif/internal/h"
	"verif/internal/report"

	"google.golang.org/grpc/codes"
)

// Env is what an engine gets from the driver.
type Env struct {
	R     *report.Run
	Prop  string
	Tier  string
	Seed  int64
	Batch int // child index
	Of    int // number of children
	W     time.Duration
	Hooks *h.Hooks
	Race  bool
}

// Thorough reports whether the thorough tier runs.
func (e *Env) Thorough() bool { return e.Tier == "thorough" }

// Pick returns q for quick and t for thorough.
func (e *Env) Pick(q, t int) int {
	if e.Thorough() {
		return t
	}
	return q
}

// PickD is Pick for durations.
func (e *Env) PickD(q, t time.Duration) time.Duration {
	if e.Thorough() {
		return t
	}
	return q
}

// Rand returns a PRNG derived from the seed and a stream label.
func (e *Env) Rand(stream int64) *rand.Rand {
	return rand.New(rand.NewSource(e.Seed*1_000_003 + stream*7919 + int64(e.Batch)*104729))
}

// Act is what a gated handler finally does.
type Act int

const (
	ActReply Act = iota
	ActError
	ActSilent
)

func (a Act) String() string { return [...]string{"reply", "error", "silent"}[a] }

// Plan is the director's instruction for one (call, node).
type Plan struct {
	Act     Act
	Code    codes.Code
	Msg     string
	Stream  int // number of stream replies (stream methods), each gated
	gate    chan struct{}
	entered chan struct{}
	once    sync.Once
	eonce   sync.Once
	// for streams: per-reply gates
	sgates []chan struct{}
}

// Open releases the gate.
func (p *Plan) Open() { p.once.Do(func() { close(p.gate) }) }

// Entered is closed when the handler is parked at the gate.
func (p *Plan) Entered() <-chan struct{} { return p.entered }

type planKey struct {
	call uint64
	node uint32
}

// Director maps (call, node) to plans and provides the gated behaviour.
type Director struct {
	mu    sync.Mutex
	plans map[planKey]*Plan
}

// NewDirector creates a director.
func NewDirector() *Director { return &Director{plans: map[planKey]*Plan{}} }

// Set registers a plan.
func (d *Director) Set(call uint64, node uint32, p *Plan) *Plan {
	p.gate = make(chan struct{})
	p.entered = make(chan struct{})
	for i := 0; i < p.Stream; i++ {
		p.sgates = append(p.sgates, make(chan struct{}))
	}
	d.mu.Lock()
	d.plans[planKey{call, node}] = p
	d.mu.Unlock()
	return p
}

// Drop forgets the plans of a call.
func (d *Director) Drop(call uint64) {
	d.mu.Lock()
	for k := range d.plans {
		if k.call == call {
			delete(d.plans, k)
		}
	}
	d.mu.Unlock()
}

func (d *Director) get(call uint64, node uint32) *Plan {
	d.mu.Lock()
	defer d.mu.Unlock()
	return d.plans[planKey{call, node}]
}

// OpenStream releases stream reply i of the plan.
func (p *Plan) OpenStream(i int) {
	defer func() { recover() }()
	close(p.sgates[i])
}

// Behaviour is the gated puppet behaviour: release the connection lock at
// entry, park at the gate, then reply / fail as planned.
func (d *Director) Behaviour(c *h.HCall) (*puppet.Rep, error) {
	c.Ctx.Release()
	p := d.get(c.Req.GetCall(), c.E.Node)
	if p == nil {
		return h.DefaultBehaviour(c)
	}
	p.eonce.Do(func() { close(p.entered) })
	done := c.S.Done()
	if c.Send != nil && p.Stream > 0 {
		for i := 0; i < p.Stream; i++ {
			select {
			case <-p.sgates[i]:
			case <-done:
				return nil, h.ErrSilent
			}
			if err := c.Send(c.Rep(uint32(i))); err != nil {
				return nil, err
			}
		}
	}
	select {
	case <-p.gate:
	case <-done:
		return nil, h.ErrSilent
	}
	switch p.Act {
	case ActError:
		if p.Code == codes.Unknown {
			// a plain Go error, not a gRPC status: the caller sees it as code Unknown with the error's text
			return nil, errors.New(p.Msg)
		}
		return nil, statusErr(p.Code, p.Msg)
	default:
		if c.Send != nil {
			if p.Stream > 0 {
				return nil, nil
			}
			return nil, c.Send(c.Rep(0))
		}
		return c.Rep(0), nil
	}
}

// PN is the per-node function used by the harness: a clone with the target
// stamped and a per-node payload; skip[id] => no message for that node.
func PN(skip map[uint32]bool) func(*puppet.Req, uint32) *puppet.Req {
	return func(r *puppet.Req, id uint32) *puppet.Req {
		if skip[id] {
			return nil
		}
		return &puppet.Req{Call: r.GetCall(), Seq: r.GetSeq(), Target: id, Kind: r.GetKind(), Script: r.GetScript(),
			Pad: []byte(fmt.Sprintf("pn-%d-%d", r.GetCall(), id))}
	}
}

// Outcome is the result of a call of any two-way configuration call type.
type Outcome struct {
	Rep   *puppet.Rep
	Agg   *puppet.Agg
	Err   error
	Level int
}

// Val returns the pointer value returned (Rep or Agg) as an interface for identity checks.
func (o Outcome) Val() any {
	if o.Agg != nil {
		return o.Agg
	}
	if o.Rep != nil {
		return o.Rep
	}
	return nil
}

// IsPN reports whether the variant takes a per-node function.
func IsPN(v string) bool {
	switch v {
	case "QCPN", "QCCombo", "AsyncPN", "AsyncCombo", "CorrPN", "CorrCombo", "CorrStreamPN", "CorrStreamCombo", "MultiPN":
		return true
	}
	return false
}

// IsCustom reports whether the variant has the custom return type.
func IsCustom(v string) bool {
	switch v {
	case "QCCustom", "QCCombo", "AsyncCustom", "AsyncCombo", "CorrCustom", "CorrCombo", "CorrStreamCustom", "CorrStreamCombo":
		return true
	}
	return false
}

// CallQC performs a synchronous quorum call of the given variant.
func CallQC(cfg *puppet.Configuration, v string, ctx context.Context, req *puppet.Req, f func(*puppet.Req, uint32) *puppet.Req) Outcome {
	switch v {
	case "QC":
		r, err := cfg.QC(ctx, req)
		return Outcome{Rep: r, Err: err}
	case "QCPN":
		r, err := cfg.QCPN(ctx, req, f)
		return Outcome{Rep: r, Err: err}
	case "QCCustom":
		r, err := cfg.QCCustom(ctx, req)
		return Outcome{Agg: r, Err: err}
	case "QCCombo":
		r, err := cfg.QCCombo(ctx, req, f)
		return Outcome{Agg: r, Err: err}
	}
	panic("unknown QC variant " + v)
}

// Future is a started asynchronous call.
type Future struct {
	Done func() bool
	Get  func() Outcome
}

// StartAsync starts an asynchronous quorum call of the given variant.
func StartAsync(cfg *puppet.Configuration, v string, ctx context.Context, req *puppet.Req, f func(*puppet.Req, uint32) *puppet.Req) Future {
	switch v {
	case "Async":
		fu := cfg.Async(ctx, req)
		return Future{fu.Done, func() Outcome { r, err := fu.Get(); return Outcome{Rep: r, Err: err} }}
	case "AsyncPN":
		fu := cfg.AsyncPN(ctx, req, f)
		return Future{fu.Done, func() Outcome { r, err := fu.Get(); return Outcome{Rep: r, Err: err} }}
	case "AsyncCustom":
		fu := cfg.AsyncCustom(ctx, req)
		return Future{fu.Done, func() Outcome { r, err := fu.Get(); return Outcome{Agg: r, Err: err} }}
	case "AsyncCombo":
		fu := cfg.AsyncCombo(ctx, req, f)
		return Future{fu.Done, func() Outcome { r, err := fu.Get(); return Outcome{Agg: r, Err: err} }}
	}
	panic("unknown async variant " + v)
}

// Corr is a started correctable call.
type Corr struct {
	Get   func() (Outcome, any) // typed Get; second result is a recovered panic
	Raw   func() (any, int, error)
	Done  func() <-chan struct{}
	Watch func(int) <-chan struct{}
}

func typedGet[T any](get func() (T, int, error), wrap func(T) Outcome) func() (Outcome, any) {
	return func() (o Outcome, pan any) {
		defer func() {
			if r := recover(); r != nil {
				pan = r
			}
		}()
		v, l, err := get()
		o = wrap(v)
		o.Level, o.Err = l, err
		return o, nil
	}
}

// StartCorr starts a correctable call of the given variant.
func StartCorr(cfg *puppet.Configuration, v string, ctx context.Context, req *puppet.Req, f func(*puppet.Req, uint32) *puppet.Req) Corr {
	wr := func(r *puppet.Rep) Outcome { return Outcome{Rep: r} }
	wa := func(r *puppet.Agg) Outcome { return Outcome{Agg: r} }
	switch v {
	case "Corr":
		c := cfg.Corr(ctx, req)
		return Corr{typedGet(c.Get, wr), func() (any, int, error) { a, b, e := c.Correctable.Get(); return a, b, e }, c.Done, c.Watch}
	case "CorrPN":
		c := cfg.CorrPN(ctx, req, f)
		return Corr{typedGet(c.Get, wr), func() (any, int, error) { a, b, e := c.Correctable.Get(); return a, b, e }, c.Done, c.Watch}
	case "CorrCustom":
		c := cfg.CorrCustom(ctx, req)
		return Corr{typedGet(c.Get, wa), func() (any, int, error) { a, b, e := c.Correctable.Get(); return a, b, e }, c.Done, c.Watch}
	case "CorrCombo":
		c := cfg.CorrCombo(ctx, req, f)
		return Corr{typedGet(c.Get, wa), func() (any, int, error) { a, b, e := c.Correctable.Get(); return a, b, e }, c.Done, c.Watch}
	case "CorrStream":
		c := cfg.CorrStream(ctx, req)
		return Corr{typedGet(c.Get, wr), func() (any, int, error) { a, b, e := c.Correctable.Get(); return a, b, e }, c.Done, c.Watch}
	case "CorrStreamPN":
		c := cfg.CorrStreamPN(ctx, req, f)
		return Corr{typedGet(c.Get, wr), func() (any, int, error) { a, b, e := c.Correctable.Get(); return a, b, e }, c.Done, c.Watch}
	case "CorrStreamCustom":
		c := cfg.CorrStreamCustom(ctx, req)
		return Corr{typedGet(c.Get, wa), func() (any, int, error) { a, b, e := c.Correctable.Get(); return a, b, e }, c.Done, c.Watch}
	case "CorrStreamCombo":
		c := cfg.CorrStreamCombo(ctx, req, f)
		return Corr{typedGet(c.Get, wa), func() (any, int, error) { a, b, e := c.Correctable.Get(); return a, b, e }, c.Done, c.Watch}
	}
	panic("unknown correctable variant " + v)
}

// perm returns the k-th permutation-ish shuffle of 0..n-1 from rng.
func perm(rng *rand.Rand, n int) []int { return rng.Perm(n) }

// allPerms enumerates all permutations of 0..n-1.
func allPerms(n int) [][]int {
	var out [][]int
	a := make([]int, n)
	for i := range a {
		a[i] = i
	}
	var rec func(k int)
	rec = func(k int) {
		if k == n {
			out = append(out, append([]int(nil), a...))
			return
		}
		for i := k; i < n; i++ {
			a[k], a[i] = a[i], a[k]
			rec(k + 1)
			a[k], a[i] = a[i], a[k]
		}
	}
	rec(0)
	return out
}
