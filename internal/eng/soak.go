package eng

import (
	"context"
	"errors"
	"fmt"
	"google.golang.org/grpc/codes"
	"google.golang.org/grpc/status"
	"math/rand"
	"os"
	"regexp"
	"strings"
	"sync"
	"sync/atomic"
	"time"

	"verif/internal/gen/puppet"
	"verif/internal/h"

	"github.com/relab/gorums"
	"google.golang.org/grpc"
)

type soakOpts struct {
	N, Configs, Workers, CallsPerWorker int
	Buffer                              uint
	MaxDelayMs                          int
	NeverPct                            int // % of handler entries that never answer until teardown
	Oversize                            bool
	Restarts                            int
	Procs                               int
}

// soakMethods restricts the methods (diagnosis aid: VERIF_METHODS=a,b,c).
var soakMethods = func() []string {
	if v := os.Getenv("VERIF_METHODS"); v != "" {
		return strings.Split(v, ",")
	}
	return nil
}()

var soakNoCancel bool

type soakStats struct {
	calls, qfInv, lateEligible, cancelled, timedOut, oversize, never, handlerErrs atomic.Int64
	misattributed                                                                 atomic.Int64
	firstBad                                                                      atomic.Pointer[string]
}

func (s *soakStats) bad(msg string) {
	s.misattributed.Add(1)
	s.firstBad.CompareAndSwap(nil, &msg)
}

type soak struct {
	e     *Env
	o     soakOpts
	cl    *h.Cluster
	cfgs  []*puppet.Configuration
	cfgIx [][]int
	st    *soakStats
	never chan struct{}
	open  sync.Once
}

func newSoak(e *Env, o soakOpts, seed int64) (*soak, error) {
	opt := h.Options{N: o.N, Block: true, DialTimeout: 2 * time.Second, SendBuffer: o.Buffer}
	if o.Oversize {
		opt.ExtraMgr = []gorums.ManagerOption{gorums.WithGrpcDialOptions(grpc.WithDefaultCallOptions(grpc.MaxCallSendMsgSize(16 << 10)))}
	}
	cl, err := h.NewCluster(opt)
	if err != nil {
		return nil, err
	}
	s := &soak{e: e, o: o, cl: cl, st: &soakStats{}, never: make(chan struct{})}
	rng := rand.New(rand.NewSource(seed))
	s.cfgs = append(s.cfgs, cl.Cfg)
	all := make([]int, o.N)
	for i := range all {
		all[i] = i
	}
	s.cfgIx = append(s.cfgIx, all)
	for len(s.cfgs) < o.Configs {
		k := 1 + rng.Intn(o.N)
		idx := rng.Perm(o.N)[:k]
		c, err := cl.SubConfig(idx, nil)
		if err != nil {
			cl.Close()
			return nil, err
		}
		s.cfgs = append(s.cfgs, c)
		s.cfgIx = append(s.cfgIx, idx)
	}
	maxd := o.MaxDelayMs
	cl.SetBehaviour(func(c *h.HCall) (*puppet.Rep, error) {
		c.Ctx.Release()
		x := (c.Req.GetCall()*2654435761 + uint64(c.E.Node)*40503) % 1000
		if int(x%100) < o.NeverPct {
			s.st.never.Add(1)
			select {
			case <-s.never:
			case <-c.S.Done():
				return nil, h.ErrSilent
			}
		} else if maxd > 0 {
			// most replies are quick, some arrive long after the call ended
			d := time.Duration(x%uint64(maxd*1000)) * time.Microsecond
			if x%10 < 7 {
				d /= 20
			}
			select {
			case <-time.After(d):
			case <-c.S.Done():
				return nil, h.ErrSilent
			}
		}
		if c.Send != nil {
			k := int(x % 4)
			for i := 0; i < k; i++ {
				if err := c.Send(c.Rep(uint32(i))); err != nil {
					return nil, err
				}
			}
			if x%2 == 0 {
				return nil, status.Errorf(codes.Aborted, "scripted failure call=%d node=%d (stream end)", c.Req.GetCall(), c.E.Node)
			}
			return nil, nil
		}
		if x%9 == 4 {
			// errors are attributed like replies: the text names the call and the node it is meant for
			s.st.handlerErrs.Add(1)
			return nil, status.Errorf(codes.Aborted, "scripted failure call=%d node=%d", c.Req.GetCall(), c.E.Node)
		}
		return c.Rep(0), nil
	})
	return s, nil
}

func (s *soak) teardownGates() { s.open.Do(func() { close(s.never) }) }

// oneCall issues one call of a random kind and checks attribution online.
func (s *soak) oneCall(rng *rand.Rand) {
	st := s.st
	ci := rng.Intn(len(s.cfgs))
	cfg := s.cfgs[ci]
	ix := s.cfgIx[ci]
	ms := allMethods
	if len(soakMethods) > 0 {
		ms = soakMethods
	}
	m := ms[rng.Intn(len(ms))]
	tok := h.NewToken()
	pad := rng.Intn(64)
	if s.o.Oversize && rng.Intn(6) == 0 {
		pad = 64 << 10
		st.oversize.Add(1)
	}
	req := &puppet.Req{Call: tok, Seq: tok, Kind: 5, Pad: make([]byte, pad)}
	skipIdx := map[int]bool{}
	skip := map[uint32]bool{}
	if IsPN(m) {
		for _, i := range ix {
			if rng.Intn(4) == 0 {
				skipIdx[i] = true
				skip[s.cl.IDs[i]] = true
			}
		}
	}
	f := PN(skip)
	want := map[uint32]uint64{}
	for _, i := range ix {
		if IsPN(m) {
			if !skipIdx[i] {
				want[s.cl.IDs[i]] = h.Digest(f(req, s.cl.IDs[i]))
			}
		} else {
			want[s.cl.IDs[i]] = h.Digest(req)
		}
	}
	stream := strings.HasPrefix(m, "CorrStream")
	th := 1 + rng.Intn(len(ix))
	var prevKeys int
	mon := &h.CallMon{Token: tok, Orig: req}
	mon.Decide = func(inv *h.Inv) (bool, int) {
		st.qfInv.Add(1)
		for id, r := range inv.Reps {
			w, ok := want[id]
			switch {
			case !ok:
				st.bad(fmt.Sprintf("%s call %d: reply filed under node %d which this call did not target", m, tok, id))
			case r.Call != tok:
				st.bad(fmt.Sprintf("%s call %d was handed a reply to call %d (node %d)", m, tok, r.Call, id))
			case r.Node != id:
				st.bad(fmt.Sprintf("%s call %d: reply under node %d was produced by node %d", m, tok, id, r.Node))
			case r.Digest != w:
				st.bad(fmt.Sprintf("%s call %d: node %d answered another request", m, tok, id))
			}
		}
		if !stream && len(inv.Keys) != prevKeys+1 {
			st.bad(fmt.Sprintf("%s call %d: invocation with %d keys after %d (a node was delivered twice or a reply was lost)", m, tok, len(inv.Keys), prevKeys))
		}
		if len(inv.NilRep) > 0 {
			st.bad(fmt.Sprintf("%s call %d: nil reply in the reply set", m, tok))
		}
		prevKeys = len(inv.Keys)
		if th < len(want) {
			st.lateEligible.Add(1)
		}
		return len(inv.Keys) >= th, len(inv.Keys)
	}
	s.cl.QS.Register(mon)
	defer s.cl.QS.Unregister(tok)
	ctx, cancel := context.WithCancel(context.Background())
	sw := rng.Intn(6)
	if soakNoCancel {
		sw = 5
	}
	if pad >= 64<<10 && !IsPN(m) { // (a per-node function replaces the payload, so those requests are sent and may legitimately wait)
		sw = 6 // oversized: the write itself fails; keep the context alive for ever (context.Background)
	}
	switch sw {
	case 0:
		cancel() // already ended
		st.cancelled.Add(1)
	case 1:
		d := time.Duration(rng.Intn(3000)) * time.Microsecond
		go func() { time.Sleep(d); cancel() }()
		st.cancelled.Add(1)
	case 2:
		var c2 context.CancelFunc
		ctx, c2 = context.WithTimeout(ctx, time.Duration(200+rng.Intn(4000))*time.Microsecond)
		defer c2()
		st.timedOut.Add(1)
	case 6:
	default:
		// bounded by a generous deadline so that calls on never-answering nodes end
		var c2 context.CancelFunc
		ctx, c2 = context.WithTimeout(ctx, 40*time.Millisecond)
		defer c2()
	}
	if sw != 6 {
		defer cancel()
	} else {
		_ = cancel // never cancelled: nothing may linger because of that
	}
	st.calls.Add(1)
	node := ix[rng.Intn(len(ix))]
	var co []gorums.CallOption
	if rng.Intn(2) == 0 {
		co = append(co, gorums.WithNoSendWaiting())
	}
	switch {
	case m == "RPC":
		rep, err := s.cl.Node(node).RPC(ctx, req)
		if err != nil && ctx.Err() == nil && (errors.Is(err, context.Canceled) || errors.Is(err, context.DeadlineExceeded)) {
			st.bad(fmt.Sprintf("RPC call %d to node %d failed with %q although its own context has not ended (the error of another call)", tok, s.cl.IDs[node], err))
		}
		if err != nil {
			s.checkScripted("RPC", tok, s.cl.IDs[node], err.Error())
		}
		if err == nil && (rep.GetCall() != tok || rep.GetNode() != s.cl.IDs[node] || rep.GetDigest() != h.Digest(req)) {
			st.bad(fmt.Sprintf("RPC call %d to node %d returned a reply to call %d from node %d", tok, s.cl.IDs[node], rep.GetCall(), rep.GetNode()))
		}
	case m == "Uni":
		s.cl.Node(node).Uni(ctx, req, co...)
	case m == "Uni2":
		s.cl.Node(node).Uni2(ctx, req, co...)
	case m == "Multi":
		cfg.Multi(ctx, req, co...)
	case m == "MultiPN":
		cfg.MultiPN(ctx, req, f, co...)
	case strings.HasPrefix(m, "QC"):
		o := CallQC(cfg, m, ctx, req, f)
		s.checkErrText(m, tok, o.Err, len(want), false, ctx.Err() == nil)
		if o.Err == nil && o.Rep != nil && o.Rep.GetCall() != tok {
			st.bad(fmt.Sprintf("%s call %d returned the value of call %d", m, tok, o.Rep.GetCall()))
		}
		if o.Err == nil && o.Agg != nil && o.Agg.GetCall() != tok {
			st.bad(fmt.Sprintf("%s call %d returned the value of call %d", m, tok, o.Agg.GetCall()))
		}
	case strings.HasPrefix(m, "Async"):
		o := StartAsync(cfg, m, ctx, req, f).Get()
		s.checkErrText(m, tok, o.Err, len(want), false, ctx.Err() == nil)
		if o.Err == nil && o.Rep != nil && o.Rep.GetCall() != tok {
			st.bad(fmt.Sprintf("%s call %d returned the value of call %d", m, tok, o.Rep.GetCall()))
		}
	default:
		c := StartCorr(cfg, m, ctx, req, f)
		<-c.Done()
		_, _, cerr := c.Raw()
		s.checkErrText(m, tok, cerr, len(want), stream, ctx.Err() == nil)
	}
}

// checkErrText applies the at-most-once-per-node rule to a quorum call error.
func (s *soak) checkErrText(m string, tok uint64, err error, targeted int, stream bool, live bool) {
	if err == nil {
		return
	}
	pe, ok := parseQCErr(err.Error())
	if !ok {
		return
	}
	for id, lines := range pe.Nodes {
		for _, l := range lines {
			s.checkScripted(m, tok, id, l)
			// the library reports a context's own error (not a gRPC status) for a node only when the request's context ended
			if live && (l == context.Canceled.Error() || l == context.DeadlineExceeded.Error()) {
				s.st.bad(fmt.Sprintf("%s call %d: node %d failed with %q although the call's own context has not ended (the error of another call)", m, tok, id, l))
			}
		}
		if len(lines) > 1 && !stream {
			s.st.bad(fmt.Sprintf("%s call %d: node %d contributed %d errors to one call: %v", m, tok, id, len(lines), lines))
		}
	}
	if !stream && pe.Errors+pe.Replies > targeted {
		s.st.bad(fmt.Sprintf("%s call %d: errors %d + replies %d exceed the %d targeted nodes", m, tok, pe.Errors, pe.Replies, targeted))
	}
}

var scriptedRe = regexp.MustCompile(`scripted failure call=(\d+) node=(\d+)`)

// checkScripted: a handler's error names the call and node it was produced for.
func (s *soak) checkScripted(m string, tok uint64, node uint32, text string) {
	if mm := scriptedRe.FindStringSubmatch(text); mm != nil {
		if mm[1] != fmt.Sprint(tok) || mm[2] != fmt.Sprint(node) {
			s.st.bad(fmt.Sprintf("%s call %d: under node %d it was handed the handler error produced for call %s by node %s", m, tok, node, mm[1], mm[2]))
		}
	}
}

// libCallGoroutines counts goroutines the client library started for calls.
func libCallGoroutines() (int, []string) {
	n := 0
	var ex []string
	for _, g := range h.Dump() {
		for _, f := range g.Frames {
			if strings.Contains(f, "relab/gorums.RawConfiguration.handleAsyncCall") || strings.Contains(f, "relab/gorums.RawConfiguration.handleCorrectableCall") ||
				strings.Contains(f, "relab/gorums.(*channel).sendMsg.func") {
				n++
				if len(ex) < 3 {
					ex = append(ex, g.State+"@"+f)
				}
				break
			}
		}
	}
	return n, ex
}

func (s *soak) hookCounts() []map[string]int64 {
	var out []map[string]int64
	if s.e.Hooks == nil {
		return nil
	}
	for i, id := range s.cl.IDs {
		m := map[string]int64{"server_entered": s.cl.Srvs[i].Entered(), "server_conns": int64(len(s.cl.Srvs[i].Conns()))}
		for _, p := range []string{"enq.registered", "snd.dequeued", "snd.beforeWrite", "snd.afterWrite", "rcv.afterRoute", "rcv.err", "rec.locked", "rec.backoff", "wat.beforeCancel", "con.broken"} {
			m[p] = s.e.Hooks.Count(p, id)
		}
		out = append(out, m)
	}
	return out
}

func (s *soak) routers() (total int, per []int) {
	for _, n := range s.cl.Mgr.Nodes() {
		c := gorums.VerifRouterCount(n.RawNode)
		per = append(per, c)
		total += c
	}
	return
}

func (s *soak) run(seed int64) {
	var wg sync.WaitGroup
	for w := 0; w < s.o.Workers; w++ {
		wg.Add(1)
		rng := rand.New(rand.NewSource(seed + int64(w)*7919))
		go func() {
			defer wg.Done()
			for k := 0; k < s.o.CallsPerWorker; k++ {
				s.oneCall(rng)
			}
		}()
	}
	// restarts while traffic flows
	stopR := make(chan struct{})
	var rwg sync.WaitGroup
	if s.o.Restarts > 0 {
		rwg.Add(1)
		go func() {
			defer rwg.Done()
			rng := rand.New(rand.NewSource(seed * 3))
			for i := 0; i < s.o.Restarts; i++ {
				select {
				case <-stopR:
					return
				case <-time.After(time.Duration(20+rng.Intn(60)) * time.Millisecond):
				}
				srv := s.cl.Srvs[rng.Intn(len(s.cl.Srvs))]
				srv.Stop()
				time.Sleep(time.Duration(5+rng.Intn(20)) * time.Millisecond)
				srv.Restart()
			}
		}()
	}
	done := make(chan struct{})
	go func() { wg.Wait(); close(done) }()
	<-done
	close(stopR)
	rwg.Wait()
}

// RunSoakAttribution is the engine behind C05.
func RunSoakAttribution(e *Env) {
	R := e.R
	R.Rule = "concurrent soaks: 8-64 goroutines on one manager, 5-9 nodes, 6-20 overlapping configurations, all 21 call kinds (two-way mixed with one-way traffic, per-node functions), servers answering after seeded delays (most quick, some long after the call ended), one answer in nine being an error status that names its call and node, and a share never until teardown, " +
		"contexts already ended / cancelled after a random delay / timing out; online oracle inside every quorum function and on every return value: own token, node stamp = map key, digest of the request meant for that node, one new key per invocation for non-stream calls; " +
		"distinct = soak parameters; non-trivial = every soak (>= 8 goroutines on shared nodes)"
	R.Assume("every request carries a unique token and per-node payload; a reply identifies the request that caused it")
	rng := e.Rand(5)
	nsoak := e.Pick(24, 600)
	for i := 0; i < nsoak; i++ {
		if e.Of > 1 && i%e.Of != e.Batch {
			continue
		}
		o := soakOpts{N: 5 + rng.Intn(5), Configs: 6 + rng.Intn(15), Workers: []int{8, 16, 32, 64}[rng.Intn(4)], CallsPerWorker: e.Pick(60, 250), Buffer: []uint{0, 1, 16}[rng.Intn(3)],
			MaxDelayMs: []int{2, 8, 20}[rng.Intn(3)], NeverPct: []int{0, 2, 5}[rng.Intn(3)], Restarts: []int{0, 0, 4}[rng.Intn(3)], Oversize: i%2 == 1}
		s, err := newSoak(e, o, rng.Int63())
		if err != nil {
			R.Inconc("soak setup: " + err.Error())
			continue
		}
		t := h.Go("soak", func() { s.run(rng.Int63()) })
		hi := h.Await(t, e.PickD(90*time.Second, 4*time.Minute))
		s.teardownGates()
		st := s.st
		if hi.Verdict != h.Returned {
			// what the online oracle saw before the soak got stuck still counts; the lack of progress itself is C09's subject
			if st.misattributed.Load() > 0 {
				R.Violate("misattributed-reply", fmt.Sprintf("%d misattributed / duplicated replies (the soak then stopped making progress: %s); first: %s", st.misattributed.Load(), hi.Sig, *st.firstBad.Load()), map[string]any{"soak": o})
				s.cl.Close()
				return // (every further soak would wait out the same lack of progress)
			}
			R.Inconc("soak did not finish (foreign: progress): " + hi.Sig + fmt.Sprint(hi.Others))
			s.cl.Close()
			continue
		}
		time.Sleep(30 * time.Millisecond) // late replies of ended calls arrive now
		if st.misattributed.Load() > 0 {
			R.Violate("misattributed-reply", fmt.Sprintf("%d misattributed / duplicated replies; first: %s", st.misattributed.Load(), *st.firstBad.Load()), map[string]any{"soak": o})
		}
		if orph := s.cl.QS.Orphans(); len(orph) > 0 {
			R.Violate("reply-after-call-ended", "a quorum function ran for a call that had already returned: "+orph[0], map[string]any{"soak": o})
		}
		R.Eval(fmt.Sprintf("%+v|%d", o, i), true)
		R.Count("calls", st.calls.Load())
		R.Count("qf_invocations", st.qfInv.Load())
		R.Count("calls_with_quorum_below_targets(late replies follow)", st.lateEligible.Load())
		R.Count("calls_cancelled", st.cancelled.Load())
		R.Count("calls_timed_out", st.timedOut.Load())
		R.Count("handlers_never_answering_until_teardown", st.never.Load())
		R.Count("handlers_answering_with_an_error_naming_call_and_node", st.handlerErrs.Load())
		R.Count("calls_oversized(write fails, stream aborted)", st.oversize.Load())
		R.Count("server_restarts", int64(o.Restarts))
		R.Sample(map[string]any{"soak": o, "calls": st.calls.Load(), "qf_invocations": st.qfInv.Load()})
		s.cl.Close()
	}
	for rep := 0; rep < e.Pick(6, 60); rep++ {
		if e.Of > 1 && rep%e.Of != e.Batch {
			continue
		}
		if R.NumViolations() > 5 {
			break
		}
		runSoakAliases(e, rep)
	}
}

// RunResidue is the engine behind C18.
func RunResidue(e *Env) {
	R := e.R
	R.Rule = "soaks of all 21 call kinds ending in every way (quorum before all replies, exhaustion, context ended before sending / while queued / after sending, timeout, oversized message whose write fails, node restart breaking connections, correctable done, stream end) on 3-7 nodes; " +
		"at quiescent points (workers finished, never-answering handlers released, replies drained) the per-node router count (read-only accessor) and the number of goroutines with frames of the library's per-call functions must be 0 (polled up to W, then reported with the survivors); " +
		"during the soak, sampled every few hundred calls: routers <= calls still open in the harness x nodes; " +
		"directed part, with context.Background(): every call kind x {no node, one node skipped by the per-node function} x {quorum reachable, out of reach}: once every targeted server has answered, routers and per-call goroutines are back at their values from before the call, whether or not the caller collected the outcome; " +
		"40 completed calls involving a node that has been unreachable since the manager was created (non-blocking dial, one re-dial per call) leave the process-wide goroutine count where it was (+24 slack); distinct = soak parameters / directed case"
	R.Assume("router count is read through the build-tag accessor VerifRouterCount under the channel's own lock; goroutines are attributed by function name in the runtime's dump")
	rng := e.Rand(18)
	stuck := 0
	nsoak := e.Pick(24, 600)
	for i := 0; i < nsoak; i++ {
		if e.Of > 1 && i%e.Of != e.Batch {
			continue
		}
		if R.NumViolations() > 6 {
			break
		}
		o := soakOpts{N: 3 + rng.Intn(5), Configs: 1 + rng.Intn(6), Workers: []int{1, 4, 16}[rng.Intn(3)], CallsPerWorker: e.Pick(120, 600), Buffer: []uint{0, 4}[rng.Intn(2)],
			MaxDelayMs: []int{0, 1, 4}[rng.Intn(3)], NeverPct: []int{0, 3}[rng.Intn(2)], Oversize: i%2 == 0, Restarts: []int{0, 0, 3}[rng.Intn(3)]}
		if v := os.Getenv("VERIF_SOAK_FORCE"); v != "" {
			o.Oversize = strings.Contains(v, "oversize")
			o.Restarts = 0
			if strings.Contains(v, "restarts") {
				o.Restarts = 3
			}
			if strings.Contains(v, "nocancel") {
				soakNoCancel = true
			}
		}
		s, err := newSoak(e, o, rng.Int63())
		if err != nil {
			R.Inconc("soak setup: " + err.Error())
			continue
		}
		base, _ := libCallGoroutines()
		t := h.Go("soak", func() { s.run(rng.Int63()) })
		// sample while running
		maxR := 0
		for running := true; running; {
			select {
			case <-t.Done:
				running = false
			case <-time.After(20 * time.Millisecond):
				tot, _ := s.routers()
				if tot > maxR {
					maxR = tot
				}
				if tot > o.Workers*o.N*2+o.N {
					// each worker has at most one call open; a call holds at most one router per node
					// (streams included); a short excess is tolerated while replies of ended calls are in flight
					time.Sleep(50 * time.Millisecond)
					if t2, per := s.routers(); t2 > o.Workers*o.N*2+o.N {
						R.Count("router_excess_seen_during_soak", 1)
						_ = per
					}
				}
			}
			if time.Since(t.Start) > e.PickD(90*time.Second, 4*time.Minute) {
				running = false
			}
		}
		if hi := h.Await(t, 3*time.Second); hi.Verdict != h.Returned {
			R.Inconc("soak did not finish (foreign: progress): " + hi.Sig)
			s.teardownGates()
			s.cl.Close()
			if stuck++; stuck >= 2 {
				break // (every further soak is likely to wait out the same lack of progress)
			}
			continue
		}
		s.teardownGates()
		// quiescence: poll for zero
		deadline := time.Now().Add(e.W)
		var tot int
		var per []int
		var gs int
		var ex []string
		for {
			tot, per = s.routers()
			gs, ex = libCallGoroutines()
			if (tot == 0 && gs <= base) || time.Now().After(deadline) {
				break
			}
			time.Sleep(10 * time.Millisecond)
		}
		st := s.st
		if tot != 0 {
			var flags []string
			for _, n := range s.cl.Mgr.Nodes() {
				est, br := gorums.VerifChannelFlags(n.RawNode)
				flags = append(flags, fmt.Sprintf("established=%v broken=%v lastErr=%v", est, br, n.LastErr()))
			}
			R.Violate("routers-left", fmt.Sprintf("%d response routers remain although no call is outstanding and every handler has answered (per node %v)", tot, per),
				map[string]any{"soak": o, "calls": st.calls.Load(), "oversize_calls": st.oversize.Load(), "parked": h.LibSummary(h.Dump(), 0), "channel_flags": flags, "stacks": h.LibStacks(h.Dump(), 0), "hook_counts": s.hookCounts()})
		}
		if gs > base {
			R.Violate("call-goroutines-left", fmt.Sprintf("%d goroutines of per-call library functions remain although no call is outstanding: %v", gs-base, ex), map[string]any{"soak": o, "calls": st.calls.Load(), "oversize_calls": st.oversize.Load()})
		}
		R.Eval(fmt.Sprintf("%+v|%d", o, i), true)
		R.Count("calls", st.calls.Load())
		R.Count("calls_cancelled", st.cancelled.Load())
		R.Count("calls_timed_out", st.timedOut.Load())
		R.Count("calls_oversized(write fails)", st.oversize.Load())
		R.Count("server_restarts", int64(o.Restarts))
		R.Max("max.routers_seen_during_soak", int64(maxR))
		R.Sample(map[string]any{"soak": o, "calls": st.calls.Load(), "max_routers_during": maxR, "routers_after": tot, "call_goroutines_after": gs - base})
		s.cl.Close()
	}
	if stuck == 0 {
		time.Sleep(200 * time.Millisecond) // goroutines of the last soak's connections wind down
		runResidueDirected(e)
	}
}
