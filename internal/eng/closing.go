package eng

import (
	"bufio"
	"context"
	"fmt"
	"io"
	"math/rand"
	"os"
	"os/exec"
	"strings"
	"sync"
	"time"

	"verif/internal/gen/puppet"
	"verif/internal/h"

	"github.com/relab/gorums"
	"google.golang.org/grpc"
	"google.golang.org/grpc/backoff"
)

type serveChild struct {
	cmd   *exec.Cmd
	in    io.WriteCloser
	out   *bufio.Reader
	addrs []string
	mu    sync.Mutex
}

func startServeChild(n int) (*serveChild, error) {
	exe, _ := os.Executable()
	cmd := exec.Command(exe, "serve", "C12", fmt.Sprint(n))
	in, _ := cmd.StdinPipe()
	out, _ := cmd.StdoutPipe()
	cmd.Stderr = io.Discard
	if err := cmd.Start(); err != nil {
		return nil, err
	}
	sc := &serveChild{cmd: cmd, in: in, out: bufio.NewReader(out)}
	for i := 0; i < n; i++ {
		line, err := sc.out.ReadString('\n')
		if err != nil {
			return nil, err
		}
		sc.addrs = append(sc.addrs, strings.TrimSpace(strings.TrimPrefix(line, "ADDR ")))
	}
	return sc, nil
}

func (sc *serveChild) cmdLine(s string) string {
	sc.mu.Lock()
	defer sc.mu.Unlock()
	fmt.Fprintln(sc.in, s)
	line, _ := sc.out.ReadString('\n')
	return strings.TrimSpace(line)
}

func (sc *serveChild) stop() {
	sc.in.Close()
	done := make(chan struct{})
	go func() { sc.cmd.Wait(); close(done) }()
	select {
	case <-done:
	case <-time.After(2 * time.Second):
		sc.cmd.Process.Kill()
	}
}

// CCase is one point of the C12 grid.
type CCase struct {
	Buffer  uint     `json:"send_buffer"`
	N       int      `json:"n"`
	States  []string `json:"node_states"` // connected | refused | server-killed
	Calls   []string `json:"in_flight_calls"`
	Strike  string   `json:"close_strikes_at"` // idle | enq.registered | snd.dequeued | snd.beforeWrite | awaiting-reply | rec.backoff
	Block   bool     `json:"blocking_dial"`
	Closers int      `json:"concurrent_closes"`
	Twice   bool     `json:"close_twice"`
}

// clientGoroutines lists goroutines with grpc or gorums frames (all of them belong to the manager, servers live in a child process).
func clientGoroutines() map[string]int {
	m := map[string]int{}
	for _, g := range h.Dump() {
		lib := false
		for _, f := range g.Frames {
			if strings.HasPrefix(f, "google.golang.org/grpc") || strings.HasPrefix(f, "github.com/relab/gorums") {
				lib = true
				break
			}
		}
		if !lib && !(strings.HasPrefix(g.Created, "google.golang.org/grpc") || strings.HasPrefix(g.Created, "github.com/relab/gorums")) {
			continue
		}
		top := "?"
		for _, f := range g.Frames {
			if strings.HasPrefix(f, "google.golang.org/grpc") || strings.HasPrefix(f, "github.com/relab/gorums") {
				top = f
				break
			}
		}
		m[g.State+"@"+top+" (created by "+g.Created+")"]++
	}
	return m
}

// RunClose is the engine behind C12.
func RunClose(e *Env) {
	R := e.R
	R.Rule = "grid (seeded sample in quick): send buffer {0,1,4,64} x node states (connected, never connected = refused, server killed = reconnecting) x in-flight calls of every kind (handlers that never answer; streaming correctables whose reply channel is full because the quorum function is busy) x strike point of Close placed with hooks " +
		"(idle, enq.registered = queued, snd.dequeued, snd.beforeWrite = being written, awaiting reply, rec.backoff = receiver asleep in back-off, rcv.beforeRoute / rcv.afterRoute = receiver has another call's reply in hand) x {one Close, 2-8 concurrent Closes, Close twice}; plus Close racing with NewConfiguration on a manager whose 3-5 nodes were registered with AddNode in descending id order, and Close striking while NewConfiguration is dialling a new node (dial held by a gate in the dialer until Close has returned, or released just after Close was called); servers run in a child process so that every goroutine with a grpc/gorums frame in the client process belongs to the manager; " +
		"oracle after Close returned: every in-flight call returns (hang rule); calls of every kind issued afterwards with context.Background() and with a deadline return or complete, without panic; no client goroutine with a grpc/gorums frame survives (polled up to W, baseline taken before the manager was created); " +
		"the server child reports no live stream; no panic from repeated or concurrent Close; distinct = grid point"
	R.Assume("tarpit node state (accept, never speak HTTP/2) is left to the thorough tier: creating a configuration against it takes gRPC's 20 s minimum connect timeout")
	rng := e.Rand(12)
	var cases []CCase
	strikes := []string{"idle", "enq.registered", "snd.dequeued", "snd.beforeWrite", "awaiting-reply", "rec.backoff", "rcv.beforeRoute", "rcv.afterRoute"}
	kinds := []string{"RPC", "QC", "Async", "Corr", "CorrStream", "Uni", "Multi", "Uni-nowait", "Multi-nowait", "CorrStream-busy"}
	for i := 0; i < e.Pick(120, 9000); i++ {
		c := CCase{Buffer: []uint{0, 1, 4, 64}[rng.Intn(4)], N: 1 + rng.Intn(3), Strike: strikes[rng.Intn(len(strikes))], Closers: []int{1, 1, 2, 8}[rng.Intn(4)], Twice: rng.Intn(3) == 0}
		for j := 0; j < c.N; j++ {
			c.States = append(c.States, []string{"connected", "connected", "refused", "server-killed", "down-then-up"}[rng.Intn(5)])
		}
		c.Block = rng.Intn(2) == 0
		if c.Strike != "idle" && c.Strike != "rec.backoff" {
			c.States[0] = "connected"
		}
		if c.Strike == "rec.backoff" {
			c.States[0] = "server-killed"
		}
		for k := 0; k < 1+rng.Intn(5); k++ {
			c.Calls = append(c.Calls, kinds[rng.Intn(len(kinds))])
		}
		cases = append(cases, c)
	}
	// the combination the dial/close interplay needs, for every buffer size: blocking dial failed at creation, node up again at Close
	for rep := 0; rep < e.Pick(12, 60); rep++ {
		for _, b := range []uint{4, 16, 64} {
			st := "down-then-up"
			if rep%3 != 0 {
				st = "down-then-up-after-close"
			}
			cases = append(cases, CCase{Buffer: b, N: 1 + rep%2, States: []string{st, "connected"}[:1+rep%2], Calls: nil, Strike: "idle", Block: true, Closers: 1})
		}
	}
	for i, c := range cases {
		if e.Of > 1 && i%e.Of != e.Batch {
			continue
		}
		if R.NumViolations() > 8 {
			break
		}
		runCloseCase(e, i, c)
	}
	// Close racing with the creation of a configuration, on a manager whose nodes were registered with AddNode in no particular order
	for rep := 0; rep < e.Pick(16, 200); rep++ {
		if e.Of > 1 && rep%e.Of != e.Batch {
			continue
		}
		if R.NumViolations() > 8 {
			break
		}
		runCloseAddNodeCase(e, rep, 3+rep%3, []uint{0, 4}[rep%2])
	}
	// Close racing with the dial of a node that NewConfiguration is adding
	for rep := 0; rep < e.Pick(12, 160); rep++ {
		if e.Of > 1 && rep%e.Of != e.Batch {
			continue
		}
		if R.NumViolations() > 8 {
			break
		}
		runCloseDialGateCase(e, rep, []uint{0, 4}[rep%2], rep%3 == 2)
	}
	if e.Batch == 0 {
		// every manager option: a manager created with WithNoConnect must close like any other
		t := h.Go("Close(no-connect manager)", func() {
			mgr := puppet.NewManager(gorums.WithNoConnect())
			if _, err := mgr.NewConfiguration(gorums.WithNodeList([]string{"127.0.0.1:9081", "127.0.0.1:9082"}), &h.QSpec{}); err != nil {
				panic(err)
			}
			mgr.Close()
			mgr.Close()
		})
		hi := h.Await(t, e.W)
		if hi.Verdict == h.Hung || t.Panic != nil {
			R.Violate("close-no-connect-manager", fmt.Sprintf("Close of a manager created with WithNoConnect: %s %.300v", hi.Sig, t.Panic), nil)
		}
		R.Eval("close|WithNoConnect", true)
	}
}

func runCloseCase(e *Env, idx int, c CCase) {
	R := e.R
	sc, err := startServeChild(c.N)
	if err != nil {
		R.Inconc("serve child: " + err.Error())
		return
	}
	defer sc.stop()
	time.Sleep(5 * time.Millisecond)
	base := clientGoroutines()
	// manager
	nodeMap := map[string]uint32{}
	var resv []*h.Srv
	defer func() {
		for _, s := range resv {
			s.Release()
		}
	}()
	ids := make([]uint32, c.N)
	addrs := make([]string, c.N)
	for j := 0; j < c.N; j++ {
		ids[j] = h.NewNodeID()
		addrs[j] = sc.addrs[j]
		if c.States[j] == "refused" {
			s, err := h.NewSrv(j, 0, "127.0.0.1:0", true)
			if err != nil {
				R.Inconc(err.Error())
				return
			}
			s.Stop()
			resv = append(resv, s)
			addrs[j] = s.Addr
		}
		nodeMap[addrs[j]] = ids[j]
	}
	bk := backoff.Config{BaseDelay: 3 * time.Second, Multiplier: 1, Jitter: 0, MaxDelay: 3 * time.Second}
	dialOpts := h.DialOpts()
	if c.Block {
		dialOpts = append(dialOpts, grpc.WithBlock())
	}
	for j := 0; j < c.N; j++ {
		if strings.HasPrefix(c.States[j], "down-then-up") {
			sc.cmdLine(fmt.Sprintf("STOP %d", j)) // down while the manager is created (a blocking dial fails), up again around Close
		}
	}
	mgr := puppet.NewManager(gorums.WithDialTimeout(100*time.Millisecond), gorums.WithSendBufferSize(c.Buffer), gorums.WithBackoff(bk),
		gorums.WithGrpcDialOptions(dialOpts...))
	qs := &h.QSpec{}
	var cfg *puppet.Configuration
	t0 := h.Go("NewConfiguration", func() { cfg, err = mgr.NewConfiguration(gorums.WithNodeMap(nodeMap), qs) })
	if hi := h.Await(t0, 10*time.Second); hi.Verdict != h.Returned || err != nil || cfg == nil {
		R.Inconc(fmt.Sprintf("NewConfiguration: %v %v", hi.Sig, err))
		return
	}
	node := func(j int) *puppet.Node {
		for _, n := range cfg.Nodes() {
			if n.ID() == ids[j] {
				return n
			}
		}
		return nil
	}
	for j := 0; j < c.N; j++ {
		if c.States[j] == "server-killed" {
			sc.cmdLine(fmt.Sprintf("STOP %d", j))
		}
	}
	if c.Strike == "rec.backoff" && e.Hooks != nil {
		// wait until the receiver of node 0 is asleep in its back-off
		e.Hooks.WaitCount("rec.backoff", ids[0], e.Hooks.Count("rec.backoff", ids[0])+1, 2*time.Second)
	} else {
		time.Sleep(10 * time.Millisecond)
	}
	// in-flight calls (handlers never answer: kind 77)
	issue := func(kind string, ctx context.Context, reqKind uint32) *h.Task {
		tok := h.NewToken()
		req := &puppet.Req{Call: tok, Seq: tok, Kind: reqKind}
		if kind == "CorrStream-busy" && reqKind == 77 {
			// every server streams two replies and then stays silent; the quorum function is still busy with the first one when
			// Close strikes, so the call's reply channel is full
			req.Kind = 78
			qs.Register(&h.CallMon{Token: tok, Orig: req, Decide: func(inv *h.Inv) (bool, int) { time.Sleep(120 * time.Millisecond); return false, len(inv.Keys) }})
		} else {
			qs.Register(&h.CallMon{Token: tok, Orig: req, Decide: func(inv *h.Inv) (bool, int) { return len(inv.Keys) >= c.N, len(inv.Keys) }})
		}
		return h.Go("c12:"+kind, func() {
			switch kind {
			case "RPC":
				node(0).RPC(ctx, req)
			case "QC":
				cfg.QC(ctx, req)
			case "Async":
				cfg.Async(ctx, req).Get()
			case "Corr":
				<-cfg.Corr(ctx, req).Done()
			case "CorrStream", "CorrStream-busy":
				<-cfg.CorrStream(ctx, req).Done()
			case "Uni":
				node(0).Uni(ctx, req)
			case "Multi":
				cfg.Multi(ctx, req)
			case "Uni-nowait":
				node(0).Uni(ctx, req, gorums.WithNoSendWaiting())
			case "Multi-nowait":
				cfg.Multi(ctx, req, gorums.WithNoSendWaiting())
			}
		})
	}
	var hold *h.Held
	if e.Hooks != nil && (c.Strike == "enq.registered" || c.Strike == "snd.dequeued" || c.Strike == "snd.beforeWrite" || strings.HasPrefix(c.Strike, "rcv.")) {
		hold = e.Hooks.Hold(c.Strike, ids[0], 0, e.W+4*time.Second)
	}
	// for nodes that were down at creation: hold the sender when it dequeues its *second* request, i.e. after the dial for the first
	// one gave up; Close then certainly gets to the node before the sender dials again
	var lateHolds []*h.Held
	if e.Hooks != nil {
		for j := 0; j < c.N; j++ {
			if strings.HasPrefix(c.States[j], "down-then-up") && c.Block && len(c.Calls) == 0 {
				lateHolds = append(lateHolds, e.Hooks.Hold("snd.dequeued", ids[j], 1, e.W+4*time.Second))
			}
		}
	}
	var inflight []*h.Task
	for _, k := range c.Calls {
		inflight = append(inflight, issue(k, context.Background(), 77))
	}
	calls := append([]string(nil), c.Calls...)
	if strings.HasPrefix(c.Strike, "rcv.") {
		// Close strikes while the receiver of node 0 has a reply in hand (before / after handing it over): one call that is
		// never answered is awaiting its reply on that node, a second one is answered
		inflight = append(inflight, issue("RPC", context.Background(), 77))
		calls = append(calls, "RPC")
		time.Sleep(5 * time.Millisecond)
		inflight = append(inflight, issue("RPC", context.Background(), 12))
		calls = append(calls, "RPC")
	}
	if c.Buffer > 0 {
		// fill the send buffers of every node (single-node calls), so that requests are queued when Close strikes
		for j := 0; j < c.N; j++ {
			for k := 0; k < int(min(c.Buffer, 24)) && (len(c.Calls) == 0 || k < 3); k++ {
				jj := j
				tok := h.NewToken()
				req := &puppet.Req{Call: tok, Seq: tok, Kind: 77}
				inflight = append(inflight, h.Go("c12:RPC", func() { node(jj).RPC(context.Background(), req) }))
				calls = append(calls, "RPC")
			}
		}
	}
	steering := ""
	if hold != nil {
		select {
		case <-hold.Reached():
			steering = "hook reached"
		case <-time.After(500 * time.Millisecond):
			steering = "hook not reached"
		}
	} else {
		time.Sleep(10 * time.Millisecond)
	}
	// a node that was down when the manager was created comes up just before Close: the sender is in the middle of a
	// (failing) dial for the first queued request and may dial again, successfully, for the next one after Close
	for j := 0; j < c.N; j++ {
		if c.States[j] == "down-then-up" {
			sc.cmdLine(fmt.Sprintf("START %d", j))
		}
	}
	// Close
	var closers []*h.Task
	for k := 0; k < c.Closers; k++ {
		closers = append(closers, h.Go("Close", func() { mgr.Close() }))
	}
	time.Sleep(2 * time.Millisecond)
	if hold != nil {
		e.Hooks.Disarm(hold)
	}
	det := map[string]any{"case": c, "steering": steering}
	for j := 0; j < c.N; j++ {
		if c.States[j] == "down-then-up-after-close" {
			// Close is (legitimately) waiting for the dial in progress; the node becomes reachable now, i.e. before that dial
			// gives up: whichever of Close and the sender's next dial comes first, no connection may be left behind.
			// The sender may go on serving buffered requests (one dial each) after Close has returned.
			time.Sleep(time.Duration(20+10*(idx%6)) * time.Millisecond)
			sc.cmdLine(fmt.Sprintf("START %d", j))
			for _, t := range closers {
				select {
				case <-t.Done:
				case <-time.After(e.W):
				}
			}
			time.Sleep(400 * time.Millisecond)
		}
	}
	defer func() {
		for _, hd := range lateHolds {
			e.Hooks.Disarm(hd)
		}
	}()
	for _, t := range closers {
		hi := h.Await(t, e.W)
		if hi.Verdict == h.Hung {
			det["stack"] = hi.Stack
			R.Violate("close-does-not-return:"+hi.Sig, "Manager.Close did not return: "+hi.Sig, det)
			return
		}
		if t.Panic != nil {
			det["panic"] = t.Panic
			R.Violate("close-panics", fmt.Sprintf("Manager.Close panicked: %.200v", t.Panic), det)
			return
		}
	}
	for _, hd := range lateHolds {
		select {
		case <-hd.Reached():
			R.Count("steering.sender_held_at_second_dequeue_until_close_returned", 1)
		default:
		}
		e.Hooks.Disarm(hd)
	}
	if len(lateHolds) > 0 {
		time.Sleep(250 * time.Millisecond) // a late dial (100 ms timeout) would happen now
	}
	if c.Twice {
		t := h.Go("Close-again", func() { mgr.Close() })
		if hi := h.Await(t, e.W); hi.Verdict == h.Hung || t.Panic != nil {
			R.Violate("second-close", fmt.Sprintf("second Close: %s %v", hi.Sig, t.Panic), det)
			return
		}
	}
	// (a) in-flight calls return
	for i, t := range inflight {
		var hi h.HangInfo
		if strings.HasPrefix(calls[i], "Corr") {
			hi = h.AwaitCompletion(t, e.W, "handleCorrectableCall") // (these tasks wait on the correctable's Done channel, in harness code)
		} else {
			hi = h.Await(t, e.W)
		}
		if hi.Verdict == h.Inconclusive {
			R.Inconc(fmt.Sprintf("in-flight %s after Close: task %s, no verdict", calls[i], hi.State))
		}
		if hi.Verdict == h.Hung {
			det["stack"] = hi.Stack
			det["others"] = hi.Others
			R.Violate("in-flight-call-stranded:"+callClass(strings.TrimSuffix(calls[i], "-nowait"))+":"+hi.Sig, fmt.Sprintf("%s in progress when Close struck (%s) never returned: %s", calls[i], c.Strike, hi.Sig), det)
			return
		}
		if t.Panic != nil {
			det["panic"] = t.Panic
			R.Violate("in-flight-call-panics", fmt.Sprintf("%s panicked: %.200v", calls[i], t.Panic), det)
			return
		}
	}
	// (b) calls issued after Close fail fast
	for _, k := range []string{"RPC", "QC", "Async", "Corr", "CorrStream", "Uni", "Multi", "Uni-nowait", "Multi-nowait"} {
		for _, withDeadline := range []bool{false, true} {
			ctx := context.Background()
			if withDeadline {
				var cancel context.CancelFunc
				ctx, cancel = context.WithTimeout(ctx, 10*time.Second)
				defer cancel()
			}
			t := h.Go("after-close:"+k, nil)
			t = issue(k, ctx, 12)
			hi := h.Await(t, e.W)
			if hi.Verdict == h.Hung {
				det["stack"] = hi.Stack
				R.Violate("call-after-close-blocks:"+callClass(strings.TrimSuffix(k, "-nowait"))+":"+hi.Sig, fmt.Sprintf("%s issued after Close (deadline=%v, send buffer %d) does not return: %s", k, withDeadline, c.Buffer, hi.Sig), det)
				return
			}
			if t.Panic != nil {
				det["panic"] = t.Panic
				R.Violate("call-after-close-panics", fmt.Sprintf("%s issued after Close panicked: %.200v", k, t.Panic), det)
				return
			}
		}
	}
	R.Count("calls_after_close", 18)
	// (c) no client goroutine survives
	deadline := time.Now().Add(e.W)
	var left map[string]int
	for {
		left = map[string]int{}
		for k, v := range clientGoroutines() {
			if v > base[k] {
				left[k] = v - base[k]
			}
		}
		if len(left) == 0 || time.Now().After(deadline) {
			break
		}
		time.Sleep(10 * time.Millisecond)
	}
	if len(left) > 0 {
		var first string
		for k := range left {
			if first == "" || k < first {
				first = k
			}
		}
		det["survivors"] = left
		cls := "grpc"
		for k := range left {
			if strings.Contains(k, "relab/gorums") {
				cls = "gorums"
				first = k
			}
		}
		R.Violate("goroutines-survive-close:"+cls+":"+goroutineClass(first), fmt.Sprintf("%d kinds of client goroutines are still alive %v after Close returned, e.g. %s", len(left), e.W, first), det)
		return
	}
	// (d) the servers see no live stream
	dl := time.Now().Add(e.W)
	var conns string
	for {
		conns = sc.cmdLine("CONNS")
		live := false
		for _, f := range strings.Fields(conns)[1:] {
			if f != "0" {
				live = true
			}
		}
		if !live || time.Now().After(dl) {
			if live {
				det["server_streams"] = conns
				R.Violate("connections-open-after-close", "server-side streams of the closed manager are still open: "+conns, det)
				return
			}
			break
		}
		time.Sleep(10 * time.Millisecond)
	}
	R.Eval(fmt.Sprintf("%+v", c), true)
	R.Seen("strike_points", c.Strike+": "+steering)
	for _, s := range c.States {
		R.Seen("node_states", s)
	}
	R.Seen("send_buffers", fmt.Sprint(c.Buffer))
	R.Count("in_flight_calls", int64(len(inflight)))
	R.Sample(map[string]any{"case": c, "steering": steering})
}

// runCloseAddNodeCase: n nodes registered through Manager.AddNode in descending ID order; Close and NewConfiguration(WithNodeIDs)
// start together. Whatever the outcome of the latter, once both have returned no goroutine or connection of the manager survives.
func runCloseAddNodeCase(e *Env, idx, n int, buffer uint) {
	R := e.R
	sc, err := startServeChild(n)
	if err != nil {
		R.Inconc("serve child: " + err.Error())
		return
	}
	defer sc.stop()
	time.Sleep(5 * time.Millisecond)
	base := clientGoroutines()
	mgr := puppet.NewManager(gorums.WithDialTimeout(500*time.Millisecond), gorums.WithSendBufferSize(buffer), gorums.WithGrpcDialOptions(append(h.DialOpts(), grpc.WithBlock())...))
	ids := make([]uint32, n)
	for j := range ids {
		ids[j] = h.NewNodeID()
	}
	det := map[string]any{"nodes": n, "send_buffer": buffer, "script": "AddNode in descending id order; Close || NewConfiguration(WithNodeIDs)"}
	for j := n - 1; j >= 0; j-- {
		node, err := gorums.NewRawNodeWithID(sc.addrs[j], ids[j])
		if err == nil {
			err = mgr.AddNode(node)
		}
		if err != nil {
			R.Inconc("AddNode: " + err.Error())
			mgr.Close()
			return
		}
	}
	var start sync.WaitGroup
	start.Add(1)
	var cfg *puppet.Configuration
	var cfgErr error
	tc := h.Go("NewConfiguration", func() {
		start.Wait()
		for k := 0; k < 3; k++ { // (each constructor ends by sorting the manager's node list)
			cfg, cfgErr = mgr.NewConfiguration(gorums.WithNodeIDs(ids), &h.QSpec{})
		}
	})
	tcl := h.Go("Close", func() { start.Wait(); mgr.Close() })
	start.Done()
	for _, t := range []*h.Task{tcl, tc} {
		hi := h.Await(t, e.W)
		if hi.Verdict == h.Hung {
			det["stack"] = hi.Stack
			R.Violate("close-does-not-return:"+hi.Sig, t.Label+" racing with the other did not return: "+hi.Sig, det)
			return
		}
		if t.Panic != nil {
			det["panic"] = t.Panic
			R.Violate("close-panics", fmt.Sprintf("%s panicked: %.200v", t.Label, t.Panic), det)
			return
		}
	}
	det["new_configuration"] = fmt.Sprintf("cfg=%v err=%v", cfg != nil, cfgErr)
	deadline := time.Now().Add(e.W)
	var left map[string]int
	for {
		left = map[string]int{}
		for k, v := range clientGoroutines() {
			if v > base[k] {
				left[k] = v - base[k]
			}
		}
		if len(left) == 0 || time.Now().After(deadline) {
			break
		}
		time.Sleep(10 * time.Millisecond)
	}
	if len(left) > 0 {
		first, cls := "", "grpc"
		for k := range left {
			if first == "" || k < first {
				first = k
			}
		}
		for k := range left {
			if strings.Contains(k, "relab/gorums") {
				cls, first = "gorums", k
			}
		}
		det["survivors"] = left
		R.Violate("goroutines-survive-close:"+cls+":"+goroutineClass(first), fmt.Sprintf("%d kinds of client goroutines are still alive %v after Close returned, e.g. %s", len(left), e.W, first), det)
		return
	}
	conns := sc.cmdLine("CONNS")
	for dl := time.Now().Add(e.W); time.Now().Before(dl); conns = sc.cmdLine("CONNS") {
		live := false
		for _, f := range strings.Fields(conns)[1:] {
			live = live || f != "0"
		}
		if !live {
			break
		}
		time.Sleep(10 * time.Millisecond)
	}
	for _, f := range strings.Fields(conns)[1:] {
		if f != "0" {
			det["server_streams"] = conns
			R.Violate("connections-open-after-close", "server-side streams of the closed manager are still open: "+conns, det)
			return
		}
	}
	R.Eval(fmt.Sprintf("close||new-configuration|n=%d|buffer=%d|%d", n, buffer, idx), true)
	R.Count("closes_racing_with_configuration_creation", 1)
}

func goroutineClass(s string) string {
	if i := strings.Index(s, " (created"); i > 0 {
		s = s[:i]
	}
	return trunc(s, 90)
}

var _ = rand.Intn
