package eng

import (
	"context"
	"fmt"
	"strings"
	"time"

	"verif/internal/gen/puppet"
	"verif/internal/h"
)

// RunBinding is the behavioural half of C17: on stubs regenerated from the working tree, every method must
// reach the handler registered for it, with the declared call type's behaviour and intact payloads.
func RunBinding(e *Env) {
	R := e.R
	R.Assume("behavioural binding run: each of the 21 puppet methods (every call type x documented option combination) is called on stubs regenerated from the working tree; the puppet server records which Go handler ran")
	for n := 1; n <= e.Pick(4, 7); n++ {
		cl, err := h.NewCluster(h.Options{N: n, Block: true, DialTimeout: 2 * time.Second})
		if err != nil {
			R.Inconc("cluster: " + err.Error())
			return
		}
		cl.SetBehaviour(func(c *h.HCall) (*puppet.Rep, error) {
			if c.Send != nil {
				for i := 0; i < 3; i++ {
					c.Send(c.Rep(uint32(i)))
				}
				return nil, fmt.Errorf("stream end")
			}
			return c.Rep(0), nil
		})
		for _, m := range allMethods {
			for _, skipOne := range []bool{false, true} {
				if skipOne && (!IsPN(m) || n < 2) {
					continue
				}
				tok := h.NewToken()
				req := &puppet.Req{Call: tok, Seq: tok, Kind: 17, Pad: []byte("binding-" + m)}
				skip := map[uint32]bool{}
				if skipOne {
					skip[cl.IDs[n-1]] = true
				}
				f := PN(skip)
				targeted := n - len(skip)
				stream := strings.HasPrefix(m, "CorrStream")
				mon := &h.CallMon{Token: tok, Orig: req, Decide: func(inv *h.Inv) (bool, int) {
					if stream {
						return false, len(inv.Keys) // ends when every stream failed
					}
					return len(inv.Keys) >= targeted, len(inv.Keys)
				}}
				cl.QS.Register(mon)
				var out Outcome
				var typed string
				node := 0
				ctx, cancel := context.WithTimeout(context.Background(), 10*time.Second)
				t := h.Go("bind:"+m, func() {
					switch {
					case m == "RPC":
						r, err := cl.Node(node).RPC(ctx, req)
						out = Outcome{Rep: r, Err: err}
					case m == "Uni":
						cl.Node(node).Uni(ctx, req)
					case m == "Uni2":
						cl.Node(node).Uni2(ctx, req)
					case m == "Multi":
						cl.Cfg.Multi(ctx, req)
					case m == "MultiPN":
						cl.Cfg.MultiPN(ctx, req, f)
					case strings.HasPrefix(m, "QC"):
						out = CallQC(cl.Cfg, m, ctx, req, f)
					case strings.HasPrefix(m, "Async"):
						out = StartAsync(cl.Cfg, m, ctx, req, f).Get()
					default:
						c := StartCorr(cl.Cfg, m, ctx, req, f)
						<-c.Done()
						o, pan := c.Get()
						if pan != nil {
							typed = fmt.Sprint(pan)
						}
						out = o
					}
				})
				hi := h.Await(t, e.W+6*time.Second)
				cancel()
				det := map[string]any{"method": m, "n": n, "skip_one": skipOne}
				if hi.Verdict != h.Returned {
					R.Violate("binding-call-does-not-complete:"+m, fmt.Sprintf("%s on regenerated stubs does not complete: %s", m, hi.Sig), det)
					continue
				}
				if typed != "" {
					R.Violate("binding-typed-get-panics:"+m, "typed Get panicked: "+typed, det)
				}
				// wait for one-way deliveries
				wantEntries := targeted
				if m == "RPC" || m == "Uni" || m == "Uni2" {
					wantEntries = 1
				} else if !IsPN(m) {
					wantEntries = n
				}
				dl := time.Now().Add(e.W)
				count := func() (int, string) {
					c := 0
					bad := ""
					for i, s := range cl.Srvs {
						for _, en := range s.Log() {
							if en.Call == 0 && en.Method == m {
								// no request of the harness is zero-valued: a typed nil (no message for this node) was sent as an empty message
								bad = fmt.Sprintf("%s: server %d received a zero-valued %s request (skipped by the per-node function: %v)", m, i, en.Method, skip[cl.IDs[i]])
							}
							if en.Call != tok {
								continue
							}
							c++
							exp := h.Digest(req)
							if IsPN(m) {
								exp = h.Digest(f(req, cl.IDs[i]))
							}
							switch {
							case en.Method != m:
								bad = fmt.Sprintf("client stub %s reached server handler %s", m, en.Method)
							case en.Digest != exp:
								bad = fmt.Sprintf("%s: server %d received a request that differs from what the stub was given (per-node function applied: %v)", m, i, IsPN(m))
							case (m == "RPC" || m == "Uni" || m == "Uni2") && i != node:
								bad = fmt.Sprintf("%s to node index %d was delivered to server %d", m, node, i)
							case IsPN(m) && skip[cl.IDs[i]]:
								bad = fmt.Sprintf("%s: skipped node %d received a message", m, i)
							}
						}
					}
					return c, bad
				}
				var c int
				var bad string
				for {
					c, bad = count()
					if c >= wantEntries || bad != "" || time.Now().After(dl) {
						break
					}
					time.Sleep(2 * time.Millisecond)
				}
				if bad != "" {
					R.Violate("binding-mismatch:"+m, bad, det)
				} else if c != wantEntries {
					R.Violate("binding-delivery:"+m, fmt.Sprintf("%s: %d handler entries, expected %d", m, c, wantEntries), det)
				}
				// client side: which quorum function ran, value types, stream-ness
				invs := mon.Invs()
				twoWayCfg := m != "RPC" && !strings.HasPrefix(m, "Uni") && !strings.HasPrefix(m, "Multi")
				if twoWayCfg {
					if len(invs) == 0 && targeted > 0 {
						R.Violate("binding-qf-not-invoked:"+m, m+": no quorum function invocation recorded", det)
					}
					for _, inv := range invs {
						if inv.Method != m {
							R.Violate("binding-wrong-qf:"+m, fmt.Sprintf("call %s was routed to the quorum function of %s", m, inv.Method), det)
							break
						}
					}
					if stream && targeted > 0 && len(invs) < 3*targeted {
						R.Violate("binding-stream:"+m, fmt.Sprintf("%s: %d invocations for %d servers streaming 3 replies each (server-stream flag lost?)", m, len(invs), targeted), det)
					}
					if !stream && len(invs) > targeted {
						R.Violate("binding-stream:"+m, fmt.Sprintf("%s: %d invocations for %d single replies", m, len(invs), targeted), det)
					}
					if !stream && targeted > 0 {
						if out.Err != nil {
							R.Violate("binding-outcome:"+m, fmt.Sprintf("%s with all nodes healthy failed: %v", m, out.Err), det)
						} else if IsCustom(m) != (out.Agg != nil) || IsCustom(m) == (out.Rep != nil) {
							R.Violate("binding-return-type:"+m, fmt.Sprintf("%s returned the wrong Go type (custom=%v)", m, IsCustom(m)), det)
						}
					}
				}
				if m == "RPC" && (out.Err != nil || out.Rep.GetCall() != tok || out.Rep.GetNode() != cl.IDs[node]) {
					R.Violate("binding-outcome:RPC", fmt.Sprintf("RPC returned %v / %v", out.Rep, out.Err), det)
				}
				R.Eval(fmt.Sprintf("bind|%s|%d|%v", m, n, skipOne), true)
				R.Count("behavioural_binding_calls", 1)
			}
		}
		cl.Close()
	}
	R.Sample(map[string]any{"kind": "behavioural-binding", "methods": allMethods})
}
