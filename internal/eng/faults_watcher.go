package eng

import (
	"context"
	"errors"
	"fmt"
	"time"

	"verif/internal/gen/puppet"
	"verif/internal/h"

	"github.com/relab/gorums"
)

// runCancelledAfterWrite: call B (needing every node) has its request written to node X and awaits X's reply; another call A
// to X has its context ended exactly while A's request is being written, late enough for the write to succeed all the same:
// gorums' per-request watcher has decided to cancel the node's stream (verif point wat.beforeCancel) but does so only after the
// write has completed. The stream then breaks with nobody's write having failed. "A call that is waiting for a node whose
// connection breaks is completed with such an error for that node instead of being left waiting": B completes, naming X once.
func runCancelledAfterWrite(e *Env, rep int) {
	R := e.R
	if e.Hooks == nil {
		return
	}
	n := 2 + rep%2
	variant := []string{"QC", "Async", "Corr"}[rep%3]
	cl, err := h.NewCluster(h.Options{N: n, Block: true, DialTimeout: 2 * time.Second})
	if err != nil {
		R.Inconc("cluster: " + err.Error())
		return
	}
	defer cl.Close()
	dir := NewDirector()
	cl.SetBehaviour(dir.Behaviour)
	x := rep % n
	idX := cl.IDs[x]
	tokB := h.NewToken()
	reqB := &puppet.Req{Call: tokB, Seq: tokB, Kind: 7}
	plans := make([]*Plan, n)
	for i := 0; i < n; i++ {
		plans[i] = dir.Set(tokB, cl.IDs[i], &Plan{Act: ActReply})
	}
	defer func() {
		for _, p := range plans {
			p.Open()
		}
	}()
	monB := &h.CallMon{Token: tokB, Orig: reqB, Decide: func(inv *h.Inv) (bool, int) { return len(inv.Keys) >= n, len(inv.Keys) }}
	cl.QS.Register(monB)
	ctxB, cancelB := context.WithTimeout(context.Background(), 60*time.Second)
	defer cancelB()
	var outB Outcome
	tB := h.Go("c07:bystander:"+variant, func() {
		switch variant {
		case "QC":
			outB = CallQC(cl.Cfg, "QC", ctxB, reqB, nil)
		case "Async":
			outB = StartAsync(cl.Cfg, "Async", ctxB, reqB, nil).Get()
		default:
			co := StartCorr(cl.Cfg, "Corr", ctxB, reqB, nil)
			<-co.Done()
			_, lvl, err := co.Raw()
			outB = Outcome{Err: err, Level: lvl}
		}
	})
	select {
	case <-plans[x].Entered(): // B's request has been written to X and is being handled
	case <-time.After(e.W):
		R.Inconc("bystander call's request did not reach node X")
		return
	}
	hw := e.Hooks.Hold("snd.beforeWrite", idX, 0, 3*time.Second)
	hc := e.Hooks.Hold("wat.beforeCancel", idX, 0, 3*time.Second)
	defer e.Hooks.Disarm(hw)
	defer e.Hooks.Disarm(hc)
	tokA := h.NewToken()
	dir.Set(tokA, idX, &Plan{Act: ActReply}).Open()
	ctxA, cancelA := context.WithCancel(context.Background())
	defer cancelA()
	tA := h.Go("c07:impatient", func() { cl.Node(x).RPC(ctxA, &puppet.Req{Call: tokA, Seq: tokA, Kind: 7}) })
	steered := false
	select {
	case <-hw.Reached():
		cancelA()
		select {
		case <-hc.Reached(): // the watcher saw the context end with the write still running and is about to cancel the stream
			writes := e.Hooks.Count("snd.afterWrite", idX)
			hw.Release() // the write goes ahead and succeeds
			e.Hooks.WaitCount("snd.afterWrite", idX, writes+1, time.Second)
			steered = true
		case <-time.After(time.Second):
		}
	case <-time.After(time.Second):
	}
	hw.Release()
	hc.Release() // the stream is cancelled now
	h.Await(tA, e.W)
	// the other nodes answer; X's reply (if its handler ever answers) is lost with the stream
	for i := 0; i < n; i++ {
		if i != x || !steered { // (not steered: X's stream is intact and its handler must be let go, or the bystander waits by right)
			plans[i].Open()
		}
	}
	det := func() map[string]any {
		return map[string]any{"variant": variant, "n": n, "node_X": idX, "steered": steered, "error": errText(outB.Err), "per_message_events(diagnosis)": e.Hooks.MsgEvents(idX)}
	}
	hi := h.Await(tB, e.W)
	if variant == "Corr" && hi.Verdict != h.Returned {
		hi = h.AwaitCompletion(tB, time.Second, "handleCorrectableCall")
	}
	switch hi.Verdict {
	case h.Hung:
		m := det()
		m["stack"] = hi.Stack
		R.Violate("left-waiting:"+hi.Sig, fmt.Sprintf("%s awaiting node %d's reply was left waiting after that node's stream was cancelled (by another request's context ending during its - successful - write)", variant, idX), m)
		return
	case h.Inconclusive:
		R.Inconc("await bystander: " + hi.State)
		return
	}
	if steered {
		switch {
		case outB.Err == nil:
			// X's reply made it before the cancellation took effect: nothing to report
			R.Count("cancelled_after_write.bystander_got_the_reply_all_the_same", 1)
		case !errors.Is(outB.Err, gorums.Incomplete):
			R.Violate("unexpected-error-kind", "bystander call failed with something other than Incomplete: "+outB.Err.Error(), det())
			return
		default:
			pe, ok := parseQCErr(outB.Err.Error())
			if !ok || len(pe.Nodes[idX]) != 1 || pe.Errors != 1 {
				R.Violate("failing-node-not-reported", fmt.Sprintf("bystander call: node %d's stream broke; expected exactly one error naming it, got: %v", idX, outB.Err), det())
				return
			}
			if !unavailableType(pe.Nodes[idX][0]) {
				R.Violate("connection-failure-error-type", fmt.Sprintf("node %d: error is not an unavailable-type error: %q", idX, pe.Nodes[idX][0]), det())
				return
			}
			R.Count("cancelled_after_write.bystander_completed_with_the_node_error", 1)
		}
	}
	R.Eval(fmt.Sprintf("cancelled-after-write|%s|%d|%d|%d", variant, n, x, rep), steered)
	if steered {
		R.Count("cancelled_after_write.steered(stream cancelled after a successful write)", 1)
	}
}
