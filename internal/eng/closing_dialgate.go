package eng

import (
	"context"
	"fmt"
	"net"
	"strings"
	"sync"
	"time"

	"verif/internal/gen/puppet"
	"verif/internal/h"

	"github.com/relab/gorums"
	"google.golang.org/grpc"
	"google.golang.org/grpc/credentials/insecure"
)

// runCloseDialGateCase: Close strikes while NewConfiguration is still dialling a node the manager does not know yet. A gate in
// the dialer holds that dial until Close has returned (early = false) or lets it finish just after Close was called (early =
// true). Whatever NewConfiguration then returns, once both have returned no goroutine and no connection of the manager survives,
// and calls on a configuration it may have returned fail fast.
func runCloseDialGateCase(e *Env, idx int, buffer uint, early bool) {
	R := e.R
	const n = 3
	sc, err := startServeChild(n)
	if err != nil {
		R.Inconc("serve child: " + err.Error())
		return
	}
	defer sc.stop()
	time.Sleep(5 * time.Millisecond)
	base := clientGoroutines()
	gate := make(chan struct{})
	var gonce sync.Once
	openGate := func() { gonce.Do(func() { close(gate) }) }
	defer openGate()
	entered := make(chan struct{}, 16)
	late := sc.addrs[n-1]
	dialer := grpc.WithContextDialer(func(ctx context.Context, addr string) (net.Conn, error) {
		if addr == late {
			select {
			case entered <- struct{}{}:
			default:
			}
			select {
			case <-gate:
			case <-ctx.Done():
				return nil, ctx.Err()
			}
		}
		var d net.Dialer
		c, err := d.DialContext(ctx, "tcp", addr)
		if err != nil {
			return nil, err
		}
		if tc, ok := c.(*net.TCPConn); ok {
			tc.SetLinger(0)
		}
		return c, nil
	})
	mgr := puppet.NewManager(gorums.WithDialTimeout(3*time.Second), gorums.WithSendBufferSize(buffer),
		gorums.WithGrpcDialOptions(grpc.WithTransportCredentials(insecure.NewCredentials()), dialer, grpc.WithBlock()))
	det := map[string]any{"send_buffer": buffer, "gate_opened_before_close_returned": early, "script": "NewConfiguration dialling a new node (dial held by a gate) || Close"}
	if _, err := mgr.NewConfiguration(gorums.WithNodeList(sc.addrs[:n-1]), &h.QSpec{}); err != nil {
		R.Inconc("first configuration: " + err.Error())
		mgr.Close()
		return
	}
	var cfg *puppet.Configuration
	var cfgErr error
	qs := &h.QSpec{}
	tc := h.Go("NewConfiguration", func() { cfg, cfgErr = mgr.NewConfiguration(gorums.WithNodeList(sc.addrs), qs) })
	select {
	case <-entered:
	case <-time.After(2 * time.Second):
		R.Inconc("the dial of the new node was not reached")
		openGate()
		h.Await(tc, e.W)
		mgr.Close()
		return
	}
	tcl := h.Go("Close", func() { mgr.Close() })
	if early {
		time.Sleep(time.Duration(idx%5) * 200 * time.Microsecond)
		openGate()
	}
	hi := h.Await(tcl, e.W)
	if hi.Verdict == h.Hung {
		// Close may legitimately wait for a dial in progress; let the dial finish and look again
		openGate()
		hi = h.Await(tcl, e.W)
	}
	if hi.Verdict == h.Hung || tcl.Panic != nil {
		det["stack"] = hi.Stack
		R.Violate("close-does-not-return:"+hi.Sig, fmt.Sprintf("Close racing with the dial of a new node: %s %.200v", hi.Sig, tcl.Panic), det)
		return
	}
	time.Sleep(20 * time.Millisecond)
	openGate()
	if hi := h.Await(tc, e.W+3*time.Second); hi.Verdict == h.Hung || tc.Panic != nil {
		det["stack"] = hi.Stack
		R.Violate("new-configuration-stuck-after-close:"+hi.Sig, fmt.Sprintf("NewConfiguration racing with Close: %s %.200v", hi.Sig, tc.Panic), det)
		return
	}
	det["new_configuration"] = fmt.Sprintf("cfg=%v err=%v", cfg != nil, cfgErr)
	if cfg != nil && cfgErr == nil {
		// a configuration of a closed manager: calls fail fast
		tok := h.NewToken()
		req := &puppet.Req{Call: tok, Seq: tok, Kind: 12}
		qs.Register(&h.CallMon{Token: tok, Orig: req, Decide: func(inv *h.Inv) (bool, int) { return len(inv.Keys) >= n, len(inv.Keys) }})
		var qerr error
		ctx, cancel := context.WithTimeout(context.Background(), 10*time.Second)
		t := h.Go("after-close:QC", func() { _, qerr = cfg.QC(ctx, req) })
		hi := h.Await(t, e.W)
		cancel()
		if hi.Verdict == h.Hung {
			R.Violate("call-after-close-blocks:quorumcall:"+hi.Sig, "QC on the configuration returned by the racing NewConfiguration does not return after Close: "+hi.Sig, det)
			return
		}
		if qerr == nil {
			R.Violate("call-succeeds-after-close", "a quorum call on all nodes of the configuration returned by the racing NewConfiguration succeeded after Manager.Close had returned", det)
			return
		}
	}
	deadline := time.Now().Add(e.W)
	var left map[string]int
	for {
		left = map[string]int{}
		for k, v := range clientGoroutines() {
			if v > base[k] {
				left[k] = v - base[k]
			}
		}
		if len(left) == 0 || time.Now().After(deadline) {
			break
		}
		time.Sleep(10 * time.Millisecond)
	}
	if len(left) > 0 {
		first, cls := "", "grpc"
		for k := range left {
			if first == "" || k < first {
				first = k
			}
		}
		for k := range left {
			if strings.Contains(k, "relab/gorums") {
				cls, first = "gorums", k
			}
		}
		det["survivors"] = left
		R.Violate("goroutines-survive-close:"+cls+":"+goroutineClass(first), fmt.Sprintf("%d kinds of client goroutines are still alive %v after Close returned, e.g. %s", len(left), e.W, first), det)
		return
	}
	conns := sc.cmdLine("CONNS")
	for dl := time.Now().Add(e.W); time.Now().Before(dl); conns = sc.cmdLine("CONNS") {
		live := false
		for _, f := range strings.Fields(conns)[1:] {
			live = live || f != "0"
		}
		if !live {
			break
		}
		time.Sleep(10 * time.Millisecond)
	}
	for _, f := range strings.Fields(conns)[1:] {
		if f != "0" {
			det["server_streams"] = conns
			R.Violate("connections-open-after-close", "server-side streams of the closed manager are still open: "+conns, det)
			return
		}
	}
	R.Eval(fmt.Sprintf("close||dial-of-new-node|buffer=%d|early=%v|%d", buffer, early, idx), true)
	R.Count("closes_racing_with_the_dial_of_a_new_node", 1)
}
