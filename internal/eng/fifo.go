package eng

import (
	"context"
	"fmt"
	"math/rand"
	"net"
	"sort"
	"strings"
	"sync"
	"time"

	"verif/internal/gen/puppet"
	"verif/internal/h"

	"github.com/relab/gorums"
)

// allMethods are the 21 puppet methods.
var allMethods = []string{"RPC", "Uni", "Uni2", "Multi", "MultiPN", "QC", "QCPN", "QCCustom", "QCCombo", "Async", "AsyncPN", "AsyncCustom", "AsyncCombo",
	"Corr", "CorrPN", "CorrCustom", "CorrCombo", "CorrStream", "CorrStreamPN", "CorrStreamCustom", "CorrStreamCombo"}

// Op is one operation of a client program.
type Op struct {
	Seq       uint64   `json:"seq"`
	Method    string   `json:"method"`
	Node      int      `json:"node,omitempty"` // RPC / Uni target (server index)
	NoWait    bool     `json:"no_send_waiting,omitempty"`
	Skip      []int    `json:"skip,omitempty"` // per-node function skips these server indices
	Threshold int      `json:"threshold,omitempty"`
	Cancel    bool     `json:"cancel,omitempty"` // context is cancelled right after issuing / returning
	Targets   []uint32 `json:"-"`
	token     uint64
}

// Invoke issues op on the cluster; asynchronous kinds are only issued. It returns a
// function that waits for the completion of what was started (may be nil).
func Invoke(cl *h.Cluster, cfg *puppet.Configuration, op *Op, ctx context.Context, req *puppet.Req) (wait func()) {
	skip := map[uint32]bool{}
	for _, i := range op.Skip {
		skip[cl.IDs[i]] = true
	}
	f := PN(skip)
	var co []gorums.CallOption
	if op.NoWait {
		co = append(co, gorums.WithNoSendWaiting())
	}
	switch m := op.Method; {
	case m == "RPC":
		cl.Node(op.Node).RPC(ctx, req)
	case m == "Uni":
		cl.Node(op.Node).Uni(ctx, req, co...)
	case m == "Uni2":
		cl.Node(op.Node).Uni2(ctx, req, co...)
	case m == "Multi":
		cfg.Multi(ctx, req, co...)
	case m == "MultiPN":
		cfg.MultiPN(ctx, req, f, co...)
	case strings.HasPrefix(m, "QC"):
		CallQC(cfg, m, ctx, req, f)
	case strings.HasPrefix(m, "Async"):
		fu := StartAsync(cfg, m, ctx, req, f)
		return func() { fu.Get() }
	case strings.HasPrefix(m, "Corr"):
		c := StartCorr(cfg, m, ctx, req, f)
		return func() { <-c.Done() }
	}
	return nil
}

type fifoProgram struct {
	N        int   `json:"n"`
	Buffer   uint  `json:"send_buffer"`
	Workers  int   `json:"goroutines"`
	Ops      []*Op `json:"ops"`
	Gated    []int `json:"gated_servers"` // servers whose handlers hold (no release) until GateOpenAt
	GateOpen int   `json:"gate_open_at"`
	Slow     []int `json:"slow_servers"`
	Early    []int `json:"early_release_servers,omitempty"` // servers whose handlers call Release at once and go on running for a while
	Cancels  bool  `json:"has_cancellations"`
	PCT      bool  `json:"pct_delays"`
}

func genFifoProgram(rng *rand.Rand, thorough bool) *fifoProgram {
	p := &fifoProgram{N: 1 + rng.Intn(7), Buffer: []uint{0, 1, 4, 64}[rng.Intn(4)], Workers: 1, GateOpen: -1}
	if rng.Intn(3) == 0 {
		p.Workers = 2 + rng.Intn(3)
	}
	nops := 20 + rng.Intn(80)
	if thorough {
		nops = 20 + rng.Intn(180)
	}
	p.Cancels = rng.Intn(6) == 0
	p.PCT = rng.Intn(2) == 0
	// (programs that cancel contexts make gorums reset streams, which can fail a synchronous call's request to an ungated
	// server; with gated servers such a call could then only finish when the gate opens, which the blocked program never reaches)
	if p.N >= 2 && rng.Intn(2) == 0 && !p.Cancels {
		// gate a strict minority-or-more of the servers, but keep at least one free
		k := 1 + rng.Intn(p.N-1)
		p.Gated = rng.Perm(p.N)[:k]
		sort.Ints(p.Gated)
		p.GateOpen = nops/2 + rng.Intn(nops/2)
	}
	for i := 0; i < p.N; i++ {
		if rng.Intn(3) == 0 {
			p.Slow = append(p.Slow, i)
		}
	}
	// (drawn from a generator of its own, so that the programs themselves stay what they were)
	if er := rand.New(rand.NewSource(int64(nops)*7919 + int64(p.N))); er.Intn(3) == 0 {
		for i := 0; i < p.N; i++ {
			if er.Intn(2) == 0 {
				p.Early = append(p.Early, i)
			}
		}
	}
	gated := map[int]bool{}
	for _, g := range p.Gated {
		gated[g] = true
	}
	var free []int
	for i := 0; i < p.N; i++ {
		if !gated[i] {
			free = append(free, i)
		}
	}
	for i := 0; i < nops; i++ {
		op := &Op{Seq: uint64(i + 1), Method: allMethods[rng.Intn(len(allMethods))]}
		gatesShut := p.GateOpen >= 0 && i < p.GateOpen
		switch {
		case op.Method == "RPC":
			// a synchronous RPC to a gated server would stall the program
			if gatesShut {
				op.Node = free[rng.Intn(len(free))]
			} else {
				op.Node = rng.Intn(p.N)
			}
		case op.Method == "Uni" || op.Method == "Uni2":
			op.Node = rng.Intn(p.N)
			op.NoWait = rng.Intn(2) == 0
		case op.Method == "Multi" || op.Method == "MultiPN":
			op.NoWait = rng.Intn(2) == 0
		}
		if IsPN(op.Method) && rng.Intn(2) == 0 {
			for j := 0; j < p.N; j++ {
				if rng.Intn(3) == 0 {
					op.Skip = append(op.Skip, j)
				}
			}
		}
		// quorum threshold: must be reachable from free, unskipped servers while the gates are shut
		skipped := map[int]bool{}
		for _, s := range op.Skip {
			skipped[s] = true
		}
		avail := 0
		for _, fsrv := range free {
			if !skipped[fsrv] {
				avail++
			}
		}
		if !gatesShut {
			avail = p.N - len(op.Skip)
		}
		if avail > 0 {
			op.Threshold = 1 + rng.Intn(avail)
		} else {
			op.Threshold = 0 // never reachable: async kinds only; sync QC would block => make it a multicast
			if strings.HasPrefix(op.Method, "QC") {
				op.Method = "MultiPN"
				if len(op.Skip) == p.N {
					op.Skip = op.Skip[:p.N-1]
				}
			}
		}
		if p.Cancels && rng.Intn(5) == 0 {
			op.Cancel = true
		}
		p.Ops = append(p.Ops, op)
	}
	return p
}

// RunFifo is the engine behind C03.
func RunFifo(e *Env) {
	R := e.R
	R.Rule = "seeded random client programs of 20-200 operations over all 21 puppet methods (send-waiting and not, per-node functions skipping random subsets, quorum thresholds below n), issued by one goroutine or a baton-passing chain of 2-4; " +
		"servers with gated (holding), slow and early-releasing handlers (Release at once, then run on for up to 0.3 ms; the generated code releases again on return) so that requests pile up; send buffers {0,1,4,64}; n in 1..7; PCT delays at the hook points on half of the programs; a minority of programs cancel contexts; " +
		"oracle over server entry logs: per (server, connection) issue sequence numbers strictly increase in handler-entry order, no (server, call) twice, and without cancellation exactly one connection per server and every targeted (call, server) present; " +
		"plus configurations created from address lists naming each server under two or three spellings of its address: no handler twice, issue order; configurations that go on being used after others were derived from them (Except, WithoutNodes, And); distinct = program shape hash; non-trivial = >= 2 servers or >= 2 goroutines"
	R.Assume("handler entry is recorded under the server's log mutex before the handler releases the connection, so log order = start order per connection")
	rng := e.Rand(3)
	nprog := e.Pick(400, 25000)
	var progs []*fifoProgram
	for i := 0; i < nprog; i++ {
		progs = append(progs, genFifoProgram(rng, e.Thorough()))
	}
	var wg sync.WaitGroup
	// programs with PCT delays share the global hook; run those one at a time per process, others in parallel
	sem := make(chan struct{}, 6)
	var pctMu sync.Mutex
	for i, p := range progs {
		if e.Of > 1 && i%e.Of != e.Batch {
			continue
		}
		if R.NumViolations() > 20 {
			break
		}
		sem <- struct{}{}
		wg.Add(1)
		go func(i int, p *fifoProgram) {
			defer wg.Done()
			defer func() { <-sem }()
			if p.PCT && e.Hooks != nil {
				pctMu.Lock()
				e.Hooks.SetDelay(h.PCT(e.Seed, int64(i)))
				e.Hooks.StartTrace()
				defer func() {
					sig, ev := e.Hooks.StopTrace()
					R.Seen("interleaving_signatures_of_pct_programs(first 64 listed)", fmt.Sprintf("%016x(%d events)", sig, len(ev)))
					R.Count("pct_programs_with_recorded_interleaving", 1)
					e.Hooks.SetDelay(nil)
					pctMu.Unlock()
				}()
			}
			runFifoProgram(e, i, p)
		}(i, p)
	}
	wg.Wait()
	for rep := 0; rep < e.Pick(4, 40); rep++ {
		if e.Of > 1 && rep%e.Of != e.Batch {
			continue
		}
		runFifoAliased(e, rep)
		runFifoDerived(e, rep)
	}
}

// runFifoDerived: other configurations are derived from a configuration (Except, WithoutNodes, And, WithNewNodes) and the
// original goes on being used: every one of its servers still starts the handler of every call exactly once, in issue order.
func runFifoDerived(e *Env, rep int) {
	R := e.R
	n := 3 + rep%3
	cl, err := h.NewCluster(h.Options{N: n, Block: true, DialTimeout: 2 * time.Second})
	if err != nil {
		R.Inconc("cluster: " + err.Error())
		return
	}
	defer cl.Close()
	sub, err := cl.SubConfig([]int{rep % (n - 1)}, nil) // one node that is not the last in id order
	if err != nil {
		R.Inconc("sub-configuration: " + err.Error())
		return
	}
	var derived []string
	for k, opt := range []gorums.NodeListOption{cl.Cfg.Except(sub), cl.Cfg.WithoutNodes(cl.IDs[(rep+1)%n]), sub.And(cl.Cfg), cl.Cfg.And(sub)} {
		if _, err := cl.Mgr.NewConfiguration(opt, cl.QS); err == nil {
			derived = append(derived, []string{"Except", "WithoutNodes", "sub.And", "And"}[k])
		}
	}
	det := map[string]any{"n": n, "derived": derived}
	const calls = 30
	want := map[uint64]uint64{}
	for k := 0; k < calls; k++ {
		tok := h.NewToken()
		want[tok] = uint64(k + 1)
		req := &puppet.Req{Call: tok, Seq: uint64(k + 1), Kind: 3}
		cl.QS.Register(&h.CallMon{Token: tok, Orig: req, Decide: func(inv *h.Inv) (bool, int) { return len(inv.Keys) >= n, len(inv.Keys) }})
		ctx, cancel := context.WithTimeout(context.Background(), 3*time.Second)
		op := &Op{Method: []string{"Multi", "QC", "Async", "Multi", "Corr"}[k%5], NoWait: k%2 == 0}
		t := h.Go("c03:derived", func() {
			if w := Invoke(cl, cl.Cfg, op, ctx, req); w != nil {
				w()
			}
		})
		h.Await(t, e.W)
		defer cancel() // (no context is cancelled while messages may still be on their way)
	}
	time.Sleep(20 * time.Millisecond)
	for i, s := range cl.Srvs {
		seen := map[uint64]int{}
		last := uint64(0)
		for _, en := range s.Log() {
			if _, ok := want[en.Call]; !ok {
				continue
			}
			seen[en.Call]++
			if seen[en.Call] > 1 {
				R.Violate("handler-started-twice", fmt.Sprintf("server %d started the handler of issue #%d %d times on a configuration from which others had been derived (%v)", i, en.Seq, seen[en.Call], derived), det)
				return
			}
			if en.Seq < last {
				R.Violate("fifo-order", fmt.Sprintf("server %d started the handler of issue #%d after the handler of issue #%d", i, en.Seq, last), det)
				return
			}
			last = en.Seq
		}
		if len(seen) < calls {
			R.Violate("lost-message", fmt.Sprintf("server %d handled %d of %d calls made on a configuration from which others had been derived (%v); no context was cancelled, no connection failed", i, len(seen), calls, derived), det)
			return
		}
	}
	R.Eval(fmt.Sprintf("derived-configurations|n=%d|%d", n, rep), true)
	R.Count("derived.original_configurations_used_after_deriving_others", 1)
}

// runFifoAliased: a configuration created from an address list in which servers also appear under other spellings of their
// addresses (leading-zero port, IPv4-mapped IPv6 literal). Such a list names every server once; no server starts the handler
// of a call twice, and the calls are handled in issue order.
func runFifoAliased(e *Env, rep int) {
	R := e.R
	n := 2 + rep%2
	cl, err := h.NewCluster(h.Options{N: n, Block: true, DialTimeout: 2 * time.Second, SendBuffer: uint(rep%2) * 4})
	if err != nil {
		R.Inconc("cluster: " + err.Error())
		return
	}
	defer cl.Close()
	var addrs []string
	for i, a := range cl.Addrs {
		host, port, _ := net.SplitHostPort(a)
		switch (rep + i) % 3 {
		case 0:
			addrs = append(addrs, a, host+":0"+port)
		case 1:
			addrs = append(addrs, "[::ffff:"+host+"]:"+port, a)
		default:
			addrs = append(addrs, a, "[::ffff:"+host+"]:"+port, host+":00"+port)
		}
	}
	cfg, err := cl.Mgr.NewConfiguration(gorums.WithNodeList(addrs), cl.QS)
	det := map[string]any{"address_list": addrs, "servers": cl.Addrs}
	if err != nil {
		R.Count("aliased.creation_rejected(judged by C14)", 1)
		return
	}
	const calls = 40
	want := map[uint64]uint64{}
	for k := 0; k < calls; k++ {
		tok := h.NewToken()
		want[tok] = uint64(k + 1)
		req := &puppet.Req{Call: tok, Seq: uint64(k + 1), Kind: 3}
		cl.QS.Register(&h.CallMon{Token: tok, Orig: req, Decide: func(inv *h.Inv) (bool, int) { return len(inv.Keys) >= n, len(inv.Keys) }})
		ctx, cancel := context.WithTimeout(context.Background(), 5*time.Second)
		op := &Op{Method: []string{"QC", "Async", "Multi", "Corr", "AsyncPN", "CorrStream"}[k%6]}
		t := h.Go("c03:aliased", func() {
			if w := Invoke(cl, cfg, op, ctx, req); w != nil {
				w()
			}
		})
		h.Await(t, e.W)
		defer cancel() // (no context is cancelled while messages may still be on their way)
	}
	time.Sleep(20 * time.Millisecond)
	for i, s := range cl.Srvs {
		seen := map[uint64]int{}
		last := uint64(0)
		for _, en := range s.Log() {
			if _, ok := want[en.Call]; !ok {
				continue
			}
			seen[en.Call]++
			if seen[en.Call] > 1 {
				R.Violate("handler-started-twice", fmt.Sprintf("server %d started the handler of issue #%d %d times (configuration of size %d created from %d spellings of %d addresses)", i, en.Seq, seen[en.Call], cfg.Size(), len(addrs), n), det)
				return
			}
			if en.Seq < last {
				R.Violate("fifo-order", fmt.Sprintf("server %d started the handler of issue #%d after the handler of issue #%d", i, en.Seq, last), det)
				return
			}
			last = en.Seq
		}
	}
	R.Eval(fmt.Sprintf("aliased-address-list|n=%d|%d", n, rep), true)
	R.Count("aliased.configurations_from_several_spellings_per_server", 1)
}

func runFifoProgram(e *Env, idx int, p *fifoProgram) {
	R := e.R
	cl, err := h.NewCluster(h.Options{N: p.N, Block: true, DialTimeout: 2 * time.Second, SendBuffer: p.Buffer})
	if err != nil {
		R.Inconc("cluster: " + err.Error())
		return
	}
	defer cl.Close()
	gate := make(chan struct{})
	gated := map[int]bool{}
	for _, g := range p.Gated {
		gated[g] = true
	}
	slow := map[int]bool{}
	for _, s := range p.Slow {
		slow[s] = true
	}
	early := map[int]bool{}
	for _, s := range p.Early {
		if !gated[s] {
			early[s] = true
		}
	}
	if len(early) > 0 {
		R.Count("programs_with_early_releasing_servers", 1)
	}
	cl.SetBehaviour(func(c *h.HCall) (*puppet.Rep, error) {
		// entry has been logged; the connection is still held
		if gated[c.S.Index] {
			select {
			case <-gate:
			case <-c.S.Done():
				return nil, h.ErrSilent
			}
		}
		if early[c.S.Index] {
			// release the connection early (the generated code releases once more when the handler returns)
			c.Ctx.Release()
			if c.E.Serial%4 != 0 {
				time.Sleep(time.Duration(c.E.Serial%4) * 100 * time.Microsecond)
			}
		}
		if slow[c.S.Index] && c.E.Serial%3 == 0 {
			time.Sleep(time.Duration(c.E.Serial%5) * 200 * time.Microsecond)
		}
		if c.Send != nil {
			c.Send(c.Rep(0))
			if c.E.Serial%2 == 0 {
				c.Send(c.Rep(1))
			}
			return nil, nil
		}
		return c.Rep(0), nil
	})
	type expect struct {
		seq  uint64
		call uint64
	}
	expected := make([]map[uint64]uint64, p.N) // per server: call token -> seq
	for i := range expected {
		expected[i] = map[uint64]uint64{}
	}
	var waits []func()
	var wmu sync.Mutex
	gateOpened := false
	openGate := func() {
		if !gateOpened {
			gateOpened = true
			close(gate)
		}
	}
	defer openGate()
	exec := func(k int, op *Op) bool {
		if p.GateOpen == k {
			openGate()
		}
		op.token = h.NewToken()
		req := &puppet.Req{Call: op.token, Seq: op.Seq, Kind: 3, Pad: []byte(op.Method)}
		th := op.Threshold
		mon := &h.CallMon{Token: op.token, Orig: req, Decide: func(inv *h.Inv) (bool, int) { return th > 0 && len(inv.Keys) >= th, len(inv.Keys) }}
		cl.QS.Register(mon)
		// expected targets
		skip := map[int]bool{}
		for _, s := range op.Skip {
			skip[s] = true
		}
		switch op.Method {
		case "RPC", "Uni", "Uni2":
			expected[op.Node][op.token] = op.Seq
		default:
			for i := 0; i < p.N; i++ {
				if !IsPN(op.Method) || !skip[i] {
					expected[i][op.token] = op.Seq
				}
			}
		}
		ctx, cancel := context.WithCancel(context.Background())
		if !op.Cancel {
			defer func() { _ = cancel }()
		}
		var w func()
		t := h.Go("op:"+op.Method, func() { w = Invoke(cl, cl.Cfg, op, ctx, req) })
		if op.Cancel {
			// cancel concurrently with / right after the invocation
			go func() { time.Sleep(time.Duration(op.Seq%3) * 100 * time.Microsecond); cancel() }()
		}
		hi := h.Await(t, e.W)
		if hi.Verdict != h.Returned {
			if hi.Verdict == h.Hung {
				R.Inconc(fmt.Sprintf("program %d op %d (%s) did not return: %s (foreign: progress properties C08/C09); others=%v", idx, op.Seq, op.Method, hi.Sig, hi.Others))
			} else {
				R.Inconc("op await inconclusive: " + hi.State)
			}
			cancel()
			return false
		}
		if w != nil {
			wmu.Lock()
			waits = append(waits, w)
			wmu.Unlock()
		}
		return true
	}
	ok := true
	if p.Workers == 1 {
		for k, op := range p.Ops {
			if !exec(k, op) {
				ok = false
				break
			}
		}
	} else {
		// baton chain: worker w executes ops k with k%Workers==w after receiving the baton
		batons := make([]chan int, p.Workers)
		for i := range batons {
			batons[i] = make(chan int, 1)
		}
		done := make(chan bool, 1)
		for w := 0; w < p.Workers; w++ {
			go func(w int) {
				for k := range batons[w] {
					if k >= len(p.Ops) {
						done <- true
						return
					}
					if !exec(k, p.Ops[k]) {
						done <- false
						return
					}
					batons[(k+1)%p.Workers] <- k + 1
				}
			}(w)
		}
		batons[0] <- 0
		ok = <-done
		for _, b := range batons {
			close(b)
		}
	}
	openGate()
	if !ok {
		return
	}
	// quiescence: all targeted (call, server) pairs present (programs without cancellation)
	complete := func() (int, int) {
		missing, total := 0, 0
		for i, s := range cl.Srvs {
			seen := map[uint64]bool{}
			for _, en := range s.Log() {
				seen[en.Call] = true
			}
			for call := range expected[i] {
				total++
				if !seen[call] {
					missing++
				}
			}
		}
		return missing, total
	}
	lost := 0
	if !p.Cancels {
		deadline := time.Now().Add(e.W)
		for {
			m, _ := complete()
			if m == 0 || time.Now().After(deadline) {
				break
			}
			time.Sleep(2 * time.Millisecond)
		}
		if m1, _ := complete(); m1 > 0 {
			before := 0
			for _, s := range cl.Srvs {
				before += s.LogLen()
			}
			time.Sleep(time.Second)
			after := 0
			for _, s := range cl.Srvs {
				after += s.LogLen()
			}
			if m2, _ := complete(); m2 > 0 {
				if after != before {
					R.Inconc("delivery still progressing after the wait")
				} else {
					lost = m2
				}
			}
		}
	} else {
		time.Sleep(20 * time.Millisecond)
	}
	// oracle over the logs
	sample := map[string]any{"program": map[string]any{"n": p.N, "send_buffer": p.Buffer, "goroutines": p.Workers, "ops": len(p.Ops), "gated": p.Gated, "gate_open_at": p.GateOpen, "slow": p.Slow, "cancels": p.Cancels, "pct": p.PCT}}
	det := func(srv int, extra string) map[string]any {
		lg := cl.Srvs[srv].Log()
		if len(lg) > 60 {
			lg = lg[:60]
		}
		return map[string]any{"program": p, "server": srv, "log_head": lg, "note": extra}
	}
	entries := 0
	for i, s := range cl.Srvs {
		lg := s.Log()
		entries += len(lg)
		lastSeq := map[uint64]uint64{}
		seenCall := map[uint64]int{}
		conns := map[uint64]bool{}
		for _, en := range lg {
			conns[en.Conn] = true
			if en.Seq <= lastSeq[en.Conn] {
				R.Violate("fifo-order", fmt.Sprintf("server %d connection %d started the handler of issue #%d after the handler of issue #%d", i, en.Conn, en.Seq, lastSeq[en.Conn]), det(i, ""))
				break
			}
			lastSeq[en.Conn] = en.Seq
			seenCall[en.Call]++
			if seenCall[en.Call] > 1 {
				R.Violate("handler-twice", fmt.Sprintf("server %d started a handler twice for call %d (issue #%d)", i, en.Call, en.Seq), det(i, ""))
				break
			}
			if _, ok := expected[i][en.Call]; !ok {
				R.Violate("untargeted-delivery", fmt.Sprintf("server %d handled issue #%d (%s) which did not target it", i, en.Seq, en.Method), det(i, ""))
				break
			}
		}
		if !p.Cancels {
			if len(conns) > 1 {
				R.Violate("extra-connection", fmt.Sprintf("server %d saw %d connections from one client although nothing was cancelled and nothing failed", i, len(conns)), det(i, ""))
			}
		}
	}
	if lost > 0 {
		R.Violate("lost-message", fmt.Sprintf("%d targeted (call, server) pairs were never handled although no context was cancelled and no connection failed", lost), det(0, ""))
	}
	sig := fmt.Sprintf("%d|%d|%d|%d|%v|%v|%v|%d", p.N, p.Buffer, p.Workers, len(p.Ops), p.Gated, p.Slow, p.Cancels, idx)
	R.Eval(sig, p.N >= 2 || p.Workers >= 2)
	R.Count("operations", int64(len(p.Ops)))
	R.Count("handler_entries", int64(entries))
	for _, op := range p.Ops {
		R.Seen("methods", op.Method)
	}
	R.Seen("send_buffers", fmt.Sprint(p.Buffer))
	R.Seen("goroutines", fmt.Sprint(p.Workers))
	if len(p.Gated) > 0 {
		R.Count("programs_with_gated_servers", 1)
	}
	if p.Cancels {
		R.Count("programs_with_cancellation", 1)
	}
	sample["handler_entries"] = entries
	if len(p.Ops) > 0 {
		sample["first_ops"] = p.Ops[:min(8, len(p.Ops))]
	}
	R.Sample(sample)
	// let asynchronous calls finish (bounded) so that teardown is clean
	fin := h.Go("finish", func() {
		for _, w := range waits {
			w()
		}
	})
	select {
	case <-fin.Done:
	case <-time.After(200 * time.Millisecond):
	}
}
