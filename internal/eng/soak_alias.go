package eng

import (
	"context"
	"fmt"
	"sync"
	"sync/atomic"
	"time"

	"verif/internal/gen/puppet"
	"verif/internal/h"

	"github.com/relab/gorums"
)

// runSoakAliases: one manager knows every server under two node ids (a configuration from a node map with the servers'
// "own" ids and a second configuration from a node map that gives the same addresses other ids). Calls of all kinds run
// concurrently on both configurations and on single nodes of both. "Under the ID of the node that produced it": every key of
// every reply set shown to a quorum function is an id of the calling configuration, the reply under it was produced by the
// server that this id stands for (the puppet reply carries the server's identity), for this call's own request.
func runSoakAliases(e *Env, rep int) {
	R := e.R
	n := 2 + rep%3
	cl, err := h.NewCluster(h.Options{N: n, Block: true, DialTimeout: 2 * time.Second, SendBuffer: uint([]int{0, 4}[rep%2])})
	if err != nil {
		R.Inconc("cluster: " + err.Error())
		return
	}
	defer cl.Close()
	alias := map[string]uint32{}
	serverOf := map[uint32]uint32{} // node id (either kind) -> the server's own id
	var aliasIDs []uint32
	for i, a := range cl.Addrs {
		id := h.NewNodeID()
		alias[a] = id
		aliasIDs = append(aliasIDs, id)
		serverOf[id] = cl.IDs[i]
		serverOf[cl.IDs[i]] = cl.IDs[i]
	}
	cfgB, err := cl.Mgr.NewConfiguration(gorums.WithNodeMap(alias), cl.QS)
	if err != nil {
		// a manager may refuse a second id for an address it knows (then there is nothing to attribute)
		R.Count("alias_configurations_refused", 1)
		R.Eval(fmt.Sprintf("aliases-refused|n=%d|%d", n, rep), true)
		return
	}
	cfgs := []*puppet.Configuration{cl.Cfg, cfgB}
	idsOf := []map[uint32]bool{{}, {}}
	for _, id := range cl.IDs {
		idsOf[0][id] = true
	}
	for _, id := range aliasIDs {
		idsOf[1][id] = true
	}
	var bad atomic.Int64
	var first atomic.Pointer[string]
	fail := func(s string) {
		bad.Add(1)
		first.CompareAndSwap(nil, &s)
	}
	var calls, invs atomic.Int64
	check := func(which int, m string, tok uint64, req *puppet.Req, reps map[uint32]h.RepV) {
		invs.Add(1)
		for id, r := range reps {
			switch {
			case !idsOf[which][id]:
				fail(fmt.Sprintf("%s call %d on configuration %v: reply set has an entry under node id %d, which is not a node of this configuration (the server that answered is %d)", m, tok, cfgs[which].NodeIDs(), id, r.Node))
			case r.Node != serverOf[id]:
				fail(fmt.Sprintf("%s call %d: the reply under node id %d was produced by server %d, but that id stands for server %d", m, tok, id, r.Node, serverOf[id]))
			case r.Call != tok || r.Digest != h.Digest(req):
				fail(fmt.Sprintf("%s call %d: the reply under node id %d answers call %d", m, tok, id, r.Call))
			}
		}
	}
	var wg sync.WaitGroup
	rounds := e.Pick(60, 400)
	for g := 0; g < 6; g++ {
		wg.Add(1)
		g := g
		t := h.Go("alias-soak", func() {
			defer wg.Done()
			for k := 0; k < rounds && bad.Load() == 0; k++ {
				which := (g + k) % 2
				cfg := cfgs[which]
				tok := h.NewToken()
				req := &puppet.Req{Call: tok, Seq: tok, Kind: 61}
				need := 1 + (g+k)%n
				m := []string{"QC", "Async", "Corr", "RPC"}[(g/2+k)%4]
				cl.QS.Register(&h.CallMon{Token: tok, Orig: req, Decide: func(inv *h.Inv) (bool, int) {
					check(which, m, tok, req, inv.Reps)
					return len(inv.Keys) >= need, len(inv.Keys)
				}})
				ctx, cancel := context.WithTimeout(context.Background(), 3*time.Second)
				calls.Add(1)
				switch m {
				case "QC":
					cfg.QC(ctx, req)
				case "Async":
					cfg.Async(ctx, req).Get()
				case "Corr":
					<-cfg.Corr(ctx, req).Done()
				case "RPC":
					nd := cfg.Nodes()[k%n]
					r, err := nd.RPC(ctx, req)
					if err == nil && (r.GetCall() != tok || r.GetNode() != serverOf[nd.ID()]) {
						fail(fmt.Sprintf("RPC call %d on node id %d (server %d) returned a reply to call %d produced by server %d", tok, nd.ID(), serverOf[nd.ID()], r.GetCall(), r.GetNode()))
					}
				}
				cancel()
				cl.QS.Unregister(tok)
			}
		})
		_ = t
	}
	done := make(chan struct{})
	go func() { wg.Wait(); close(done) }()
	select {
	case <-done:
	case <-time.After(e.W + 20*time.Second):
		if bad.Load() == 0 {
			R.Inconc("alias soak did not finish")
			return
		}
	}
	if bad.Load() > 0 {
		R.Violate("reply-under-wrong-node-id", fmt.Sprintf("%d replies filed under a wrong node id while every server is registered under two ids in one manager; first: %s", bad.Load(), *first.Load()), map[string]any{"n": n, "own_ids": cl.IDs, "second_ids": aliasIDs})
	}
	R.Eval(fmt.Sprintf("aliases|n=%d|%d", n, rep), true)
	R.Count("alias_soak.calls", calls.Load())
	R.Count("alias_soak.qf_invocations_checked", invs.Load())
}
