package eng

import (
	"context"
	"fmt"
	"math/rand"
	randv2 "math/rand/v2"
	"runtime"
	"strings"
	"sync"
	"time"

	"verif/internal/gen/puppet"
	"verif/internal/h"

	"github.com/relab/gorums"
)

// sleepHook is the sync-free hook of race runs: per-thread randomness, sleeps only, no shared writes.
func sleepHook(long map[string]time.Duration) func(string, uint32) {
	return func(point string, node uint32) {
		if d, ok := long[point]; ok {
			if randv2.IntN(4) == 0 {
				time.Sleep(d)
			}
			return
		}
		switch v := randv2.IntN(1000); {
		case v < 900:
		case v < 960:
			runtime.Gosched()
		case v < 990:
			time.Sleep(50 * time.Microsecond)
		default:
			time.Sleep(time.Millisecond)
		}
	}
}

// pureBehaviour has no shared state; scripts come from the request.
func pureBehaviour(c *h.HCall) (*puppet.Rep, error) {
	k := c.Req.GetSeq()
	if k%3 == 0 {
		c.Ctx.Release()
	}
	if k%7 == 0 {
		time.Sleep(time.Duration(k%5) * 100 * time.Microsecond)
	}
	if k%11 == 0 {
		go c.Ctx.Release()
	}
	if c.Send != nil {
		for i := 0; i < int(k%4); i++ {
			if err := c.Send(c.Rep(uint32(i))); err != nil {
				return nil, err
			}
		}
		if k%2 == 0 {
			return nil, fmt.Errorf("stream end")
		}
		return nil, nil
	}
	if k%13 == 0 {
		return nil, fmt.Errorf("handler failure")
	}
	return c.Rep(0), nil
}

// RunRaces is the engine behind C15 (meaningful only in the -race build).
func RunRaces(e *Env) {
	R := e.R
	R.Rule = "race-detector runs (go build -race) of reduced concurrent workloads over the public API: all 21 call kinds from 8-32 goroutines with cancellations and timeouts, creation of further configurations concurrent with Nodes()/NodeIDs()/Size(), per-node and custom-type calls, correctables followed level by level (Watch, Get) from two goroutines while their levels are published, " +
		"handlers releasing early / from helper goroutines, server restarts under traffic, nodes down at creation being re-dialled, Close concurrent with calls; sleep-driven windows (context end during a delayed write with the watcher delayed before its cancel; re-dial concurrent with Close); " +
		"sync-free hook (per-thread randomness, sleeps only) and monitors without shared state so that no happens-before edges are added; GOMAXPROCS 2/4/16; oracle: WARNING: DATA RACE blocks parsed from the detector's log files, attributed and de-duplicated by function pair; distinct = workload parameters"
	R.Assume("the race detector only sees executed code and only races whose two accesses actually happen in the run; reports whose innermost non-runtime frames lie in the harness are harness bugs (exit 3), not findings")
	if !e.Race {
		R.Note("not a -race build: workloads run without the detector")
	}
	procs := []int{2, 4, 16}[e.Batch%3]
	runtime.GOMAXPROCS(procs)
	gorums.VerifSetHook(sleepHook(map[string]time.Duration{"snd.beforeWrite": 2 * time.Millisecond, "wat.beforeCancel": 8 * time.Millisecond, "rec.locked": time.Millisecond}))
	rng := e.Rand(15)
	rounds := e.Pick(24, 200)
	for r := 0; r < rounds; r++ {
		if e.Of > 1 && r%e.Of != e.Batch%e.Of && false {
			continue
		}
		n := 3 + rng.Intn(3)
		workers := []int{8, 16, 32}[rng.Intn(3)]
		buf := []uint{0, 2, 16}[rng.Intn(3)]
		down := []int{}
		if rng.Intn(2) == 0 {
			down = append(down, rng.Intn(n))
		}
		cl, err := h.NewCluster(h.Options{N: n, Block: false, DialTimeout: 200 * time.Millisecond, SendBuffer: buf, Pure: true, QSpec: h.PureQSpec{}, Down: down})
		if err != nil {
			R.Inconc("cluster: " + err.Error())
			continue
		}
		cl.SetBehaviour(pureBehaviour)
		var wg sync.WaitGroup
		calls := e.Pick(60, 200)
		stop := make(chan struct{})
		// workers: calls of all kinds
		for w := 0; w < workers; w++ {
			wg.Add(1)
			wr := rand.New(rand.NewSource(rng.Int63()))
			go func(w int) {
				defer wg.Done()
				cfg := cl.Cfg
				var tok uint64 = uint64(w+1) << 32
				for k := 0; k < calls; k++ {
					tok++
					m := allMethods[wr.Intn(len(allMethods))]
					th := uint32(1 + wr.Intn(n))
					req := &puppet.Req{Call: tok, Seq: uint64(wr.Intn(1000)), Kind: th, Pad: make([]byte, []int{0, 10, 2000, 40000}[wr.Intn(4)])}
					ctx, cancel := context.WithCancel(context.Background())
					switch wr.Intn(5) {
					case 0:
						cancel()
					case 1:
						d := time.Duration(wr.Intn(2000)) * time.Microsecond
						go func() { time.Sleep(d); cancel() }()
					default:
						var c2 context.CancelFunc
						ctx, c2 = context.WithTimeout(ctx, 30*time.Millisecond)
						_ = c2
					}
					if wr.Intn(10) == 0 {
						// a further configuration, created concurrently with everything else
						k := 1 + wr.Intn(n)
						if c2, err := cl.SubConfig(wr.Perm(n)[:k], h.PureQSpec{}); err == nil {
							cfg = c2
						}
						_ = cl.Mgr.Nodes()
						_ = cl.Mgr.NodeIDs()
						_ = cl.Mgr.Size()
						for _, nd := range cfg.Nodes() {
							_ = nd.LastErr()
							_ = nd.Latency()
							_ = nd.FullString()
						}
						// the provided sorters read per-node channel state (last error) while calls and reconnects run
						raw := cl.Mgr.RawManager.Nodes()
						gorums.OrderedBy(gorums.LastNodeError, gorums.ID).Sort(raw)
						gorums.OrderedBy(gorums.Port).Sort(raw)
						_ = cfg.NodeIDs()
						_ = cfg.Equal(cl.Cfg.RawConfiguration)
					}
					op := &Op{Method: m, Node: wr.Intn(n), NoWait: wr.Intn(2) == 0, Threshold: int(th)}
					if IsPN(m) && wr.Intn(2) == 0 {
						op.Skip = []int{wr.Intn(n)}
					}
					if strings.HasPrefix(m, "Corr") && wr.Intn(2) == 0 {
						// a correctable followed level by level from two goroutines while its levels are being published
						skip := map[uint32]bool{}
						for _, i := range op.Skip {
							skip[cl.IDs[i]] = true
						}
						co := StartCorr(cfg, m, ctx, req, PN(skip))
						var fwg sync.WaitGroup
						for f := 0; f < 2; f++ {
							fwg.Add(1)
							go func() {
								defer fwg.Done()
								for l := 0; l <= n+2; l++ {
									select {
									case <-co.Watch(l):
									case <-co.Done():
									}
									co.Raw()
									co.Get()
								}
							}()
						}
						fwg.Wait()
						cancel()
						continue
					}
					wait := Invoke(cl, cfg, op, ctx, req)
					if wait != nil && wr.Intn(2) == 0 {
						wait()
					}
					cancel()
				}
			}(w)
		}
		// restarts under traffic
		wg.Add(1)
		go func() {
			defer wg.Done()
			rr := rand.New(rand.NewSource(int64(r)))
			for _, d := range down {
				time.Sleep(5 * time.Millisecond)
				cl.Srvs[d].Restart()
			}
			for i := 0; i < 3; i++ {
				select {
				case <-stop:
					return
				case <-time.After(time.Duration(10+rr.Intn(30)) * time.Millisecond):
				}
				s := cl.Srvs[rr.Intn(n)]
				s.Stop()
				time.Sleep(time.Duration(2+rr.Intn(10)) * time.Millisecond)
				s.Restart()
			}
		}()
		// Close concurrently with the tail of the traffic in half of the rounds
		closeEarly := r%2 == 1
		if closeEarly {
			wg.Add(1)
			go func() {
				defer wg.Done()
				time.Sleep(time.Duration(30+r%20) * time.Millisecond)
				cl.Mgr.Close()
			}()
		}
		done := make(chan struct{})
		go func() { wg.Wait(); close(done) }()
		select {
		case <-done:
		case <-time.After(3 * time.Minute):
			R.Inconc("race workload did not finish (foreign: progress)")
		}
		close(stop)
		cl.Close()
		R.Eval(fmt.Sprintf("n=%d workers=%d buf=%d down=%v closeEarly=%v procs=%d round=%d", n, workers, buf, down, closeEarly, procs, r), true)
		R.Count("calls", int64(workers*calls))
		R.Seen("gomaxprocs", fmt.Sprint(procs))
		if r < 2 {
			R.Sample(map[string]any{"nodes": n, "goroutines": workers, "send_buffer": buf, "down_at_creation": down, "close_concurrent_with_calls": closeEarly, "gomaxprocs": procs, "calls": workers * calls})
		}
	}
	// directed: re-dial of a node that was down at creation, concurrent with Close
	for i := 0; i < e.Pick(10, 60); i++ {
		cl, err := h.NewCluster(h.Options{N: 2, Block: false, DialTimeout: 100 * time.Millisecond, Pure: true, QSpec: h.PureQSpec{}, Down: []int{0, 1}})
		if err != nil {
			continue
		}
		var wg sync.WaitGroup
		for w := 0; w < 4; w++ {
			wg.Add(1)
			go func(w int) {
				defer wg.Done()
				for k := 0; k < 5; k++ {
					ctx, cancel := context.WithTimeout(context.Background(), 20*time.Millisecond)
					cl.Node(w%2).RPC(ctx, &puppet.Req{Call: uint64(k + 1), Kind: 1})
					cancel()
				}
			}(w)
		}
		time.Sleep(time.Duration(i%5) * time.Millisecond)
		cl.Mgr.Close()
		wg.Wait()
		cl.Close()
		R.Eval(fmt.Sprintf("redial-vs-close-%d", i), true)
	}
	// directed: And / WithNewNodes on a shared configuration that has spare capacity (built from a list with duplicates), from several goroutines;
	// and Close concurrent with the creation of configurations that add nodes
	for i := 0; i < e.Pick(8, 50); i++ {
		cl, err := h.NewCluster(h.Options{N: 4, Block: false, DialTimeout: 100 * time.Millisecond, Pure: true, QSpec: h.PureQSpec{}})
		if err != nil {
			continue
		}
		dup, err1 := cl.Mgr.NewConfiguration(gorums.WithNodeList([]string{cl.Addrs[0], cl.Addrs[0], cl.Addrs[1], cl.Addrs[1]}), h.PureQSpec{})
		others := make([]*puppet.Configuration, 0, 3)
		for j := 1; j < 4; j++ {
			if c, err := cl.SubConfig([]int{j}, h.PureQSpec{}); err == nil {
				others = append(others, c)
			}
		}
		var wg sync.WaitGroup
		if err1 == nil {
			for w := 0; w < 6; w++ {
				wg.Add(1)
				go func(w int) {
					defer wg.Done()
					for k := 0; k < 10; k++ {
						o := others[(w+k)%len(others)]
						if c, err := cl.Mgr.NewConfiguration(dup.And(o), h.PureQSpec{}); err == nil {
							_ = c.NodeIDs()
						}
						_ = dup.NodeIDs()
					}
				}(w)
			}
		}
		// new nodes being added while the manager is closed
		wg.Add(2)
		go func() {
			defer wg.Done()
			for k := 0; k < 6; k++ {
				cl.Mgr.NewConfiguration(gorums.WithNodeList([]string{fmt.Sprintf("127.0.0.1:%d", 6100+k)}), h.PureQSpec{})
			}
		}()
		go func() {
			defer wg.Done()
			time.Sleep(time.Duration(i%4) * 200 * time.Microsecond)
			cl.Mgr.Close()
		}()
		wg.Wait()
		cl.Close()
		R.Eval(fmt.Sprintf("shared-config-algebra-and-close-vs-addnode-%d", i), true)
	}
	// directed: managers created and used with a plain gorums API (RawManager) concurrently
	for i := 0; i < e.Pick(5, 30); i++ {
		mgr := gorums.NewRawManager(gorums.WithNoConnect(), gorums.WithGrpcDialOptions(h.DialOpts()...))
		var wg sync.WaitGroup
		for w := 0; w < 6; w++ {
			wg.Add(1)
			go func(w int) {
				defer wg.Done()
				for k := 0; k < 20; k++ {
					addrs := []string{fmt.Sprintf("127.0.0.1:%d", 7000+(w+k)%9), fmt.Sprintf("127.0.0.1:%d", 7000+(w*k)%9)}
					gorums.NewRawConfiguration(mgr, gorums.WithNodeList(addrs))
					_ = mgr.Nodes()
					_ = mgr.NodeIDs()
					for _, nd := range mgr.Nodes() {
						_ = nd.ID()
					}
				}
			}(w)
		}
		wg.Wait()
		R.Eval(fmt.Sprintf("config-creation-vs-nodes-%d", i), true)
	}
	gorums.VerifSetHook(nil)
}

// RaceReport is one parsed data race.
type RaceReport struct {
	Sig    string
	Text   string
	InLib  bool
	InTest bool
}

// ParseRaces splits a race-detector log into reports and attributes them.
func ParseRaces(log string) []RaceReport {
	var out []RaceReport
	blocks := strings.Split(log, "==================")
	for _, b := range blocks {
		if !strings.Contains(b, "WARNING: DATA RACE") {
			continue
		}
		// sections: first access, "Previous ... by goroutine", then "Goroutine N ... created at:"
		secs := strings.Split(b, "\n\n")
		var funcs []string
		harness, lib := false, false
		for _, s := range secs {
			ls := strings.Split(strings.TrimSpace(s), "\n")
			if len(ls) == 0 {
				continue
			}
			hd := ls[0]
			if !(strings.HasPrefix(hd, "WARNING: DATA RACE") || strings.HasPrefix(hd, "Read at") || strings.HasPrefix(hd, "Write at") || strings.HasPrefix(hd, "Previous") || strings.HasPrefix(hd, "Atomic")) {
				continue
			}
			// innermost non-runtime frame
			for _, l := range ls {
				l = strings.TrimSpace(l)
				if l == "" || strings.HasPrefix(l, "/") || strings.HasPrefix(l, "WARNING") || strings.HasPrefix(l, "Read at") || strings.HasPrefix(l, "Write at") || strings.HasPrefix(l, "Previous") || strings.HasPrefix(l, "Atomic") {
					continue
				}
				fn := l
				if i := strings.Index(fn, "("); i > 0 && !strings.HasPrefix(fn, "(") {
					// keep method receivers like pkg.(*T).M(
				}
				if i := strings.LastIndex(fn, "("); i > 0 {
					fn = fn[:i]
				}
				if strings.HasPrefix(fn, "runtime.") || strings.HasPrefix(fn, "sync.") || strings.HasPrefix(fn, "sync/atomic.") || strings.HasPrefix(fn, "internal/") {
					continue
				}
				funcs = append(funcs, fn)
				switch {
				case strings.HasPrefix(fn, "verif/internal/gen/"):
					lib = true
				case strings.HasPrefix(fn, "verif/"), strings.HasPrefix(fn, "main."):
					harness = true
				case strings.HasPrefix(fn, "github.com/relab/gorums"):
					lib = true
				default:
					// grpc / protobuf / stdlib reached from library code: decided by the rest of the stack
					for _, l2 := range ls {
						if strings.Contains(l2, "github.com/relab/gorums") {
							lib = true
						}
					}
				}
				break
			}
		}
		for i := range funcs {
			funcs[i] = strings.TrimPrefix(funcs[i], "github.com/relab/gorums.")
		}
		if len(funcs) >= 2 && funcs[0] > funcs[1] {
			funcs[0], funcs[1] = funcs[1], funcs[0]
		}
		sig := strings.Join(funcs, " / ")
		if len(b) > 6000 {
			b = b[:6000]
		}
		// a harness frame innermost on one side only = the harness touching memory the public API handed out
		// (e.g. the slice returned by Nodes()) while the library writes it: the library's race. Both sides in the harness = harness bug.
		_ = harness
		allHarness := len(funcs) > 0
		for _, f := range funcs {
			if !strings.HasPrefix(f, "verif/internal/eng") && !strings.HasPrefix(f, "verif/internal/h") && !strings.HasPrefix(f, "main.") {
				allHarness = false
			}
		}
		out = append(out, RaceReport{Sig: sig, Text: b, InLib: lib && !allHarness, InTest: allHarness})
	}
	return out
}
