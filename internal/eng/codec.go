package eng

import (
	"bufio"
	"context"
	"fmt"
	"math/rand"
	"os"
	"os/exec"
	"path/filepath"
	"strings"
	"sync/atomic"
	"time"

	"verif/internal/gen/puppet"
	"verif/internal/h"

	"github.com/relab/gorums"
	"github.com/relab/gorums/ordering"
	spb "google.golang.org/genproto/googleapis/rpc/status"
	"google.golang.org/grpc"
	"google.golang.org/grpc/codes"
	"google.golang.org/grpc/status"
	"google.golang.org/protobuf/encoding/protowire"
	"google.golang.org/protobuf/proto"
	"google.golang.org/protobuf/reflect/protoreflect"
	"google.golang.org/protobuf/reflect/protoregistry"
	"google.golang.org/protobuf/types/known/anypb"
)

type methodInfo struct {
	full    string
	in, out protoreflect.MessageType
}

func registeredMethods() []methodInfo {
	var ms []methodInfo
	protoregistry.GlobalFiles.RangeFiles(func(fd protoreflect.FileDescriptor) bool {
		svcs := fd.Services()
		for i := 0; i < svcs.Len(); i++ {
			mds := svcs.Get(i).Methods()
			for j := 0; j < mds.Len(); j++ {
				md := mds.Get(j)
				in, err1 := protoregistry.GlobalTypes.FindMessageByName(md.Input().FullName())
				out, err2 := protoregistry.GlobalTypes.FindMessageByName(md.Output().FullName())
				if err1 != nil || err2 != nil {
					continue
				}
				ms = append(ms, methodInfo{string(md.FullName()), in, out})
			}
		}
		return true
	})
	return ms
}

var unicode = []string{"", "a", "nö ☃", "日本語", "\x00\x01", strings.Repeat("x", 300), "line\nbreak", "ünï", " ", "🙂"}

func randString(rng *rand.Rand) string {
	switch rng.Intn(6) {
	case 0:
		return unicode[rng.Intn(len(unicode))]
	case 1:
		return strings.Repeat("é", rng.Intn(2000))
	}
	b := make([]byte, rng.Intn(24))
	for i := range b {
		b[i] = byte('a' + rng.Intn(26))
	}
	return string(b)
}

func randBytes(rng *rand.Rand, big bool) []byte {
	n := rng.Intn(64)
	if big && rng.Intn(50) == 0 {
		n = 1 << 20
	}
	b := make([]byte, n)
	rng.Read(b)
	return b
}

// fill sets random values on m through protoreflect.
func fill(rng *rand.Rand, m protoreflect.Message, depth int) {
	fds := m.Descriptor().Fields()
	for i := 0; i < fds.Len(); i++ {
		fd := fds.Get(i)
		if rng.Intn(4) == 0 {
			continue // leave unset (default)
		}
		one := func() protoreflect.Value {
			switch fd.Kind() {
			case protoreflect.BoolKind:
				return protoreflect.ValueOfBool(rng.Intn(2) == 0)
			case protoreflect.Int32Kind, protoreflect.Sint32Kind, protoreflect.Sfixed32Kind:
				return protoreflect.ValueOfInt32(int32(rng.Uint32()))
			case protoreflect.Int64Kind, protoreflect.Sint64Kind, protoreflect.Sfixed64Kind:
				return protoreflect.ValueOfInt64(int64(rng.Uint64()))
			case protoreflect.Uint32Kind, protoreflect.Fixed32Kind:
				return protoreflect.ValueOfUint32(rng.Uint32())
			case protoreflect.Uint64Kind, protoreflect.Fixed64Kind:
				return protoreflect.ValueOfUint64(rng.Uint64())
			case protoreflect.FloatKind:
				return protoreflect.ValueOfFloat32(rng.Float32())
			case protoreflect.DoubleKind:
				return protoreflect.ValueOfFloat64(rng.Float64())
			case protoreflect.StringKind:
				return protoreflect.ValueOfString(strings.ToValidUTF8(randString(rng), "?"))
			case protoreflect.BytesKind:
				return protoreflect.ValueOfBytes(randBytes(rng, true))
			case protoreflect.EnumKind:
				vs := fd.Enum().Values()
				return protoreflect.ValueOfEnum(vs.Get(rng.Intn(vs.Len())).Number())
			}
			return protoreflect.Value{}
		}
		switch {
		case fd.IsMap():
			continue
		case fd.IsList():
			l := m.Mutable(fd).List()
			for k := rng.Intn(4); k > 0; k-- {
				if fd.Kind() == protoreflect.MessageKind || fd.Kind() == protoreflect.GroupKind {
					if depth < 3 {
						e := l.NewElement()
						fill(rng, e.Message(), depth+1)
						l.Append(e)
					}
				} else if v := one(); v.IsValid() {
					l.Append(v)
				}
			}
		case fd.Kind() == protoreflect.MessageKind || fd.Kind() == protoreflect.GroupKind:
			if depth < 3 {
				fill(rng, m.Mutable(fd).Message(), depth+1)
			}
		default:
			if v := one(); v.IsValid() {
				m.Set(fd, v)
			}
		}
	}
}

func randMetadata(rng *rand.Rand, method string) *ordering.Metadata {
	md := &ordering.Metadata{Method: method}
	switch rng.Intn(4) {
	case 0:
		md.MessageID = 0
	case 1:
		md.MessageID = 1
	case 2:
		md.MessageID = ^uint64(0)
	default:
		md.MessageID = rng.Uint64()
	}
	if rng.Intn(2) == 0 {
		st := &spb.Status{Code: int32(rng.Intn(17)), Message: strings.ToValidUTF8(randString(rng), "?")}
		if rng.Intn(3) == 0 {
			a, _ := anypb.New(&puppet.Rep{Call: rng.Uint64()})
			st.Details = append(st.Details, a)
		}
		md.Status = st
	}
	return md
}

// safeUnmarshal runs Codec.Unmarshal under recover.
func safeUnmarshal(c *gorums.Codec, b []byte, response bool) (msg *gorums.Message, err error, pan any) {
	defer func() {
		if r := recover(); r != nil {
			pan = r
		}
	}()
	msg = gorums.VerifNewMessage(response)
	err = c.Unmarshal(b, msg)
	return
}

func frame(md, payload []byte) []byte {
	b := protowire.AppendBytes(nil, md)
	return protowire.AppendBytes(b, payload)
}

// nonMethodNames returns registered full names that are not methods.
func nonMethodNames() []string {
	var out []string
	add := func(n protoreflect.FullName) { out = append(out, string(n)) }
	protoregistry.GlobalFiles.RangeFiles(func(fd protoreflect.FileDescriptor) bool {
		if len(out) > 400 {
			return false
		}
		ms := fd.Messages()
		for i := 0; i < ms.Len(); i++ {
			add(ms.Get(i).FullName())
			fs := ms.Get(i).Fields()
			for j := 0; j < fs.Len() && j < 3; j++ {
				add(fs.Get(j).FullName())
			}
		}
		es := fd.Enums()
		for i := 0; i < es.Len(); i++ {
			add(es.Get(i).FullName())
			add(es.Get(i).Values().Get(0).FullName())
		}
		ss := fd.Services()
		for i := 0; i < ss.Len(); i++ {
			add(ss.Get(i).FullName())
		}
		xs := fd.Extensions()
		for i := 0; i < xs.Len(); i++ {
			add(xs.Get(i).FullName())
		}
		return true
	})
	return out
}

// passCodec hands pre-encoded frames to gRPC under the gorums content-subtype.
type passCodec struct{}

func (passCodec) Marshal(v any) ([]byte, error) { return v.([]byte), nil }
func (passCodec) Unmarshal(b []byte, v any) error {
	*(v.(*[]byte)) = append([]byte(nil), b...)
	return nil
}
func (passCodec) Name() string { return gorums.ContentSubtype }

// RunCodec is the engine behind C13.
func RunCodec(e *Env) {
	R := e.R
	R.Rule = "round trip: for every method in the linked protobuf registry (puppet + the repository's own services) and both directions, random messages filled through protoreflect (all scalar kinds, nested, repeated, unicode, empty, 1 MiB), " +
		"metadata with message ids {0, 1, 2^64-1, random} and statuses with every code, arbitrary text and Any details -> Codec.Marshal -> Codec.Unmarshal into a fresh library Message -> proto.Equal and dynamic type; end-to-end status round trip for every code; " +
		"hostile bytes: mutations of valid frames (truncate at every offset, bit flips, rewritten/overlong length prefixes, swapped/spliced sections) and a method-name dictionary (unknown, empty, 64 KiB, names of messages, fields, enums, enum values, services, extensions); " +
		"each input is decoded under recover; a sample of the hostile frames is also written by a raw gRPC client onto a live NodeStream of a separate server process, which must survive and answer a normal call; distinct = input bytes"
	R.Assume("the unexported Message constructor is reached through the build-tag accessor VerifNewMessage")
	rng := e.Rand(13)
	codec := gorums.NewCodec()
	methods := registeredMethods()
	R.Count("registered_methods", int64(len(methods)))
	for _, m := range methods {
		R.Seen("method_files", strings.SplitN(m.full, ".", 2)[0])
	}
	nrt := e.Pick(40000, 3000000)
	if e.Of > 1 {
		nrt /= e.Of
	}
	var valid [][]byte // valid frames for mutation
	for i := 0; i < nrt && R.NumViolations() < 5; i++ {
		mi := methods[rng.Intn(len(methods))]
		response := rng.Intn(2) == 0
		mt := mi.in
		if response {
			mt = mi.out
		}
		msg := mt.New()
		if rng.Intn(10) != 0 {
			fill(rng, msg, 0)
		}
		md := randMetadata(rng, mi.full)
		in := &gorums.Message{Metadata: md, Message: msg.Interface()}
		b, err := codec.Marshal(in)
		if err != nil {
			R.Violate("marshal-fails", fmt.Sprintf("Marshal of a %s message for %s failed: %v", mt.Descriptor().FullName(), mi.full, err), nil)
			continue
		}
		out, err, pan := safeUnmarshal(codec, b, response)
		sig := fmt.Sprintf("rt|%s|%v|%x", mi.full, response, fnvBytes(b))
		R.Eval(sig, true)
		switch {
		case pan != nil:
			R.Violate("roundtrip-panic", fmt.Sprintf("Unmarshal panicked on a valid frame for %s: %v", mi.full, pan), nil)
		case err != nil:
			R.Violate("roundtrip-error", fmt.Sprintf("Unmarshal of a valid frame for %s failed: %v", mi.full, err), nil)
		case !proto.Equal(out.Metadata, md):
			R.Violate("metadata-changed", fmt.Sprintf("metadata changed in the round trip for %s", mi.full), map[string]any{"sent": md.String(), "got": out.Metadata.String()})
		case out.Message == nil || out.Message.ProtoReflect().Descriptor().FullName() != mt.Descriptor().FullName():
			R.Violate("wrong-dynamic-type", fmt.Sprintf("decoded message for %s (response=%v) has the wrong type", mi.full, response), nil)
		case !proto.Equal(out.Message, msg.Interface()):
			R.Violate("message-changed", fmt.Sprintf("message changed in the round trip for %s", mi.full), nil)
		}
		if len(valid) < 400 && len(b) < 4096 {
			valid = append(valid, b)
		}
		if i < 2 {
			R.Sample(map[string]any{"kind": "round-trip", "method": mi.full, "response": response, "frame_bytes": len(b), "message_id": md.MessageID, "has_status": md.Status != nil})
		}
	}
	R.Count("round_trips", int64(nrt))
	// handler error without payload (nil message) round trip
	for code := 1; code <= 16; code++ {
		md := &ordering.Metadata{MessageID: uint64(code), Method: "puppet.Puppet.QC"}
		w := gorums.WrapMessage(md, nil, status.Error(codes.Code(code), "nö ☃ failure"))
		b, err := codec.Marshal(w)
		if err != nil {
			R.Violate("marshal-fails", "Marshal of an error reply failed: "+err.Error(), nil)
			continue
		}
		out, err, pan := safeUnmarshal(codec, b, true)
		if pan != nil || err != nil {
			R.Violate("error-reply-roundtrip", fmt.Sprintf("error reply with code %d: err=%v panic=%v", code, err, pan), nil)
			continue
		}
		st := status.FromProto(out.Metadata.GetStatus())
		if st.Code() != codes.Code(code) || st.Message() != "nö ☃ failure" {
			R.Violate("status-changed", fmt.Sprintf("status %d/%q became %d/%q", code, "nö ☃ failure", st.Code(), st.Message()), nil)
		}
		R.Eval(fmt.Sprintf("status|%d", code), true)
	}
	// ---- hostile bytes ----
	names := []string{"", "puppet.Puppet.NoSuch", "no.such.Thing", "puppet.Puppet.QC.", ".puppet.Puppet.QC", "puppet..Puppet", strings.Repeat("a", 64<<10), "\x00", "日本語", "puppet.Puppet.QC\x00"}
	nm := nonMethodNames()
	R.Count("non_method_names_in_dictionary", int64(len(nm)))
	names = append(names, nm...)
	var hostile [][]byte
	payload, _ := proto.Marshal(&puppet.Req{Call: 7, Pad: []byte("hostile")})
	for _, n := range names {
		mdb, _ := proto.Marshal(&ordering.Metadata{MessageID: 5, Method: n})
		hostile = append(hostile, frame(mdb, payload))
	}
	nh := e.Pick(100000, 12000000)
	if e.Of > 1 {
		nh /= e.Of
	}
	mutate := func(b []byte) []byte {
		b = append([]byte(nil), b...)
		switch rng.Intn(10) {
		case 0: // truncate
			if len(b) > 0 {
				b = b[:rng.Intn(len(b))]
			}
		case 1: // bit flips
			for k := 1 + rng.Intn(4); k > 0 && len(b) > 0; k-- {
				b[rng.Intn(len(b))] ^= 1 << uint(rng.Intn(8))
			}
		case 2: // rewrite the first length prefix
			pre := [][]byte{{0}, {0x7f}, {0xff, 0xff, 0xff, 0xff, 0x0f}, {0x80, 0x80, 0x80, 0x80, 0x80, 0x80, 0x80, 0x80, 0x80, 0x01}, {0xff, 0xff, 0xff, 0xff, 0xff, 0xff, 0xff, 0xff, 0x7f}, {0x80, 0x80, 0x80, 0x80, 0x80, 0x80, 0x80, 0x80, 0x80, 0x80, 0x01}}[rng.Intn(6)]
			_, n := protowire.ConsumeVarint(b)
			if n > 0 {
				b = append(append([]byte(nil), pre...), b[n:]...)
			}
		case 3: // rewrite the second length prefix
			md, n := protowire.ConsumeBytes(b)
			if n > 0 && n < len(b) {
				_, n2 := protowire.ConsumeVarint(b[n:])
				if n2 > 0 {
					pre := [][]byte{{0}, {0x7f}, {0xff, 0xff, 0x03}, {0xff, 0xff, 0xff, 0xff, 0xff, 0xff, 0xff, 0xff, 0x7f}}[rng.Intn(4)]
					b = append(append(protowire.AppendBytes(nil, md), pre...), b[n+n2:]...)
				}
			}
		case 4: // swap sections
			md, n := protowire.ConsumeBytes(b)
			if n > 0 {
				pl, n2 := protowire.ConsumeBytes(b[n:])
				if n2 > 0 {
					b = frame(pl, md)
				}
			}
		case 5: // splice with another valid frame
			o := valid[rng.Intn(len(valid))]
			if len(b) > 0 && len(o) > 0 {
				b = append(b[:rng.Intn(len(b))], o[rng.Intn(len(o)):]...)
			}
		case 6: // random bytes
			b = randBytes(rng, false)
		case 8: // payload length prefix overstated / understated by 1..3
			md, n := protowire.ConsumeBytes(b)
			if n > 0 && n < len(b) {
				l, n2 := protowire.ConsumeVarint(b[n:])
				if n2 > 0 {
					d := uint64(1 + rng.Intn(3))
					if rng.Intn(2) == 0 && l >= d {
						l -= d
					} else {
						l += d
					}
					nb := protowire.AppendBytes(nil, md)
					nb = protowire.AppendVarint(nb, l)
					b = append(nb, b[n+n2:]...)
				}
			}
		case 9: // cut the frame short by 1..3 bytes
			if k := 1 + rng.Intn(3); len(b) > k {
				b = b[:len(b)-k]
			}
		case 7: // drop the payload section / duplicate the metadata section
			md, n := protowire.ConsumeBytes(b)
			if n > 0 {
				if rng.Intn(2) == 0 {
					b = protowire.AppendBytes(nil, md)
				} else {
					b = frame(md, md)
				}
			}
		}
		return b
	}
	scratch := filepath.Join(os.TempDir(), fmt.Sprintf("c13-input-%d.bin", os.Getpid()))
	defer os.Remove(scratch)
	outcomes := map[string]int64{}
	tryOne := func(b0 []byte, label string) {
		// gRPC hands the codec a buffer whose capacity equals its length: reproduce that (a sub-slice of a larger
		// buffer would hide out-of-range slicing)
		b := make([]byte, len(b0))
		copy(b, b0)
		for _, response := range []bool{false, true} {
			_, err, pan := safeUnmarshal(codec, b, response)
			switch {
			case pan != nil:
				p := fmt.Sprint(pan)
				if len(p) > 120 {
					p = p[:120]
				}
				os.WriteFile(scratch+".panic", b, 0o644)
				R.Violate("decode-panic:"+normPanic(p), fmt.Sprintf("Unmarshal panicked on hostile input (%s): %s", label, p), map[string]any{"input_hex_prefix": fmt.Sprintf("%x", b[:min(len(b), 96)]), "input_len": len(b), "response": response})
				outcomes["panic"]++
			case err != nil:
				outcomes["error"]++
			default:
				outcomes["message"]++
			}
		}
		R.Eval(fmt.Sprintf("h|%x", fnvBytes(b)), true)
	}
	for i, b := range hostile {
		tryOne(b, "method-name dictionary entry "+fmt.Sprintf("%q", trunc(names[i], 60)))
	}
	// truncate every valid frame at every offset (for the first frames)
	for i := 0; i < min(len(valid), e.Pick(20, 200)); i++ {
		for off := 0; off < len(valid[i]); off++ {
			tryOne(valid[i][:off], "truncated valid frame")
		}
	}
	for i := 0; i < nh && R.NumViolations() < 8; i++ {
		src := valid[rng.Intn(len(valid))]
		if rng.Intn(5) == 0 {
			src = hostile[rng.Intn(len(hostile))]
		}
		b := mutate(src)
		if i%1000 == 0 {
			os.WriteFile(scratch, b, 0o644) // keep the input on disk in case the process dies
		}
		tryOne(b, "mutated frame")
		if len(hostile) < 3000 && i%50 == 0 {
			hostile = append(hostile, b)
		}
	}
	for k, v := range outcomes {
		R.Count("hostile.decoded_to_"+k, v)
	}
	R.Sample(map[string]any{"kind": "hostile", "example_method_names": []string{"", "puppet.Req", "puppet.Req.call", "puppet.Puppet", "gorums.quorumcall"}, "outcomes": outcomes})
	if e.Batch == 0 {
		codecEndToEnd(e, hostile, rng)
	}
}

func normPanic(p string) string {
	if i := strings.Index(p, ":"); i > 0 && i < 60 {
		// keep the class of the panic, drop the concrete type names
		q := p[:i]
		if strings.Contains(p, "is not protoreflect.MethodDescriptor") {
			return q + ": descriptor is not a MethodDescriptor"
		}
		return q
	}
	return trunc(p, 60)
}

func trunc(s string, n int) string {
	if len(s) > n {
		return s[:n] + "…"
	}
	return s
}

func fnvBytes(b []byte) uint64 {
	var hsh uint64 = 14695981039346656037
	for _, c := range b {
		hsh ^= uint64(c)
		hsh *= 1099511628211
	}
	return hsh
}

// codecEndToEnd writes hostile frames onto a live NodeStream of a separate server process.
func codecEndToEnd(e *Env, hostile [][]byte, rng *rand.Rand) {
	R := e.R
	// status round trip through real servers (in-process cluster)
	cl, err := h.NewCluster(h.Options{N: 1, Block: true, DialTimeout: 2 * time.Second})
	if err == nil {
		dir := NewDirector()
		cl.SetBehaviour(dir.Behaviour)
		for code := 1; code <= 16; code++ {
			// error with text, success, error with empty text, success: every reply must carry exactly its own status
			// (texts that look like an encoding of something else - percent escapes, plus signs, backslash escapes, HTML entities,
			// base64, a leading/trailing blank, a kilobyte and 64 KiB of text - must arrive as they were written)
			tricky := []string{`invalid path "/files/a%2Fb"`, "100%25 done", "%zz % %", "a+b c%20d", `C:\new\temp \x41 \u00e9`, "&amp;<b>&#65;", "aGVsbG8=", " padded ", "tab\there\r\n", strings.Repeat("k", 1500), strings.Repeat("long ☃ ", 8000), "%", "%%", "%e2%98%83"}
			msgs := []string{fmt.Sprintf("handler says nö ☃ %d", code), "<ok>", "", "<ok>", tricky[code%len(tricky)], tricky[(code+5)%len(tricky)], "<ok>"}
			for step, msg := range msgs {
				tok := h.NewToken()
				pl := &Plan{Act: ActError, Code: codes.Code(code), Msg: msg}
				if msg == "<ok>" {
					pl = &Plan{Act: ActReply}
				}
				p := dir.Set(tok, cl.IDs[0], pl)
				p.Open()
				ctx, cancel := context.WithTimeout(context.Background(), 5*time.Second)
				rep, err := cl.Node(0).RPC(ctx, &puppet.Req{Call: tok})
				cancel()
				if msg == "<ok>" {
					if err != nil || rep.GetCall() != tok {
						R.Violate("status-leaks-into-later-reply", fmt.Sprintf("handler returned a reply without error (after an earlier %s error), caller saw %v", codes.Code(code), err), nil)
					}
				} else {
					st, ok := status.FromError(err)
					if !ok || st.Code() != codes.Code(code) || st.Message() != msg {
						R.Violate("handler-status-not-preserved", fmt.Sprintf("handler returned %s/%q, caller saw %v", codes.Code(code), msg, err), nil)
					}
				}
				R.Eval(fmt.Sprintf("e2e-status|%d|%d", code, step), true)
			}
		}
		cl.Close()
	}
	// a streaming handler that sends replies and then fails: every reply arrives as a success, then its status, exactly once
	for _, rbuf := range []uint{0, 16} {
		var so []gorums.ServerOption
		if rbuf > 0 {
			so = append(so, gorums.WithReceiveBufferSize(rbuf))
		}
		cl, err := h.NewCluster(h.Options{N: 2, Block: true, DialTimeout: 2 * time.Second, ServerOpts: so})
		if err != nil {
			R.Inconc("cluster: " + err.Error())
			continue
		}
		const K = 6
		cl.SetBehaviour(func(c *h.HCall) (*puppet.Rep, error) {
			if c.Send == nil {
				return c.Rep(0), nil
			}
			for i := 0; i < K; i++ {
				if err := c.Send(c.Rep(uint32(i))); err != nil {
					return nil, err
				}
			}
			return nil, status.Error(codes.Code(c.Req.GetKind()), fmt.Sprintf("stream ends ☃ %d", c.Req.GetKind()))
		})
		for code := 1; code <= 16; code++ {
			for _, m := range []string{"CorrStream", "CorrStreamCustom"} {
				tok := h.NewToken()
				req := &puppet.Req{Call: tok, Seq: tok, Kind: uint32(code)}
				var invs atomic.Int64
				cl.QS.Register(&h.CallMon{Token: tok, Orig: req, Decide: func(inv *h.Inv) (bool, int) { invs.Add(1); return false, len(inv.Keys) }})
				ctx, cancel := context.WithTimeout(context.Background(), 5*time.Second)
				co := StartCorr(cl.Cfg, m, ctx, req, nil)
				select {
				case <-co.Done():
				case <-ctx.Done():
				}
				_, _, cerr := co.Raw()
				cancel()
				cl.QS.Unregister(tok)
				want := fmt.Sprintf("rpc error: code = %s desc = stream ends ☃ %d", codes.Code(code), code)
				pe, ok := parseQCErr(errText(cerr))
				good := ok && len(pe.Nodes) == 2
				for _, lines := range pe.Nodes {
					good = good && len(lines) == 1 && lines[0] == want
				}
				if got := invs.Load(); got != 2*K {
					R.Violate("streamed-replies-not-delivered-as-successes", fmt.Sprintf("%s (server receive buffer %d): 2 handlers sent %d replies each and then failed with %s; the quorum function was shown %d replies instead of %d; call ended with %v", m, rbuf, K, codes.Code(code), got, 2*K, cerr), nil)
				} else if !good {
					R.Violate("handler-status-not-preserved", fmt.Sprintf("%s: streaming handlers failed with %q, caller saw %v", m, want, cerr), nil)
				}
				R.Eval(fmt.Sprintf("e2e-stream-status|%d|%s|%d", code, m, rbuf), true)
			}
		}
		cl.Close()
	}
	// server child
	exe, _ := os.Executable()
	cmd := exec.Command(exe, "serve", "C13", "1")
	stdin, _ := cmd.StdinPipe()
	stdout, _ := cmd.StdoutPipe()
	logf, _ := os.CreateTemp("", "c13-serve-*.log")
	cmd.Stderr = logf
	if err := cmd.Start(); err != nil {
		R.Inconc("serve child: " + err.Error())
		return
	}
	defer func() { stdin.Close(); cmd.Process.Kill(); cmd.Wait(); os.Remove(logf.Name()) }()
	rd := bufio.NewReader(stdout)
	line, err := rd.ReadString('\n')
	if err != nil {
		R.Inconc("serve child gave no address")
		return
	}
	addr := strings.TrimSpace(strings.TrimPrefix(line, "ADDR "))
	alive := func() bool {
		conn, err := grpc.Dial(addr, append(h.DialOpts(), grpc.WithBlock(), grpc.WithTimeout(2*time.Second))...)
		if err != nil {
			return false
		}
		conn.Close()
		// a normal gorums call
		mgr := puppet.NewManager(gorums.WithDialTimeout(2*time.Second), gorums.WithGrpcDialOptions(append(h.DialOpts(), grpc.WithBlock())...))
		defer func() { go mgr.Close() }()
		cfg, err := mgr.NewConfiguration(gorums.WithNodeMap(map[string]uint32{addr: 1}), &h.QSpec{})
		if err != nil {
			return false
		}
		ctx, cancel := context.WithTimeout(context.Background(), 3*time.Second)
		defer cancel()
		rep, err := cfg.Nodes()[0].RPC(ctx, &puppet.Req{Call: 4242})
		return err == nil && rep.GetCall() == 4242
	}
	if !alive() {
		R.Inconc("serve child not reachable")
		return
	}
	n := e.Pick(400, 4000)
	sent := 0
	last := filepath.Join(os.TempDir(), fmt.Sprintf("c13-e2e-last-%d.bin", os.Getpid()))
	conn, err := grpc.Dial(addr, h.DialOpts()...)
	if err != nil {
		R.Inconc("dial: " + err.Error())
		return
	}
	defer conn.Close()
	for i := 0; i < n; i++ {
		b := hostile[rng.Intn(len(hostile))]
		if i < len(hostile) {
			b = hostile[i] // the dictionary entries first
		}
		if len(b) > 3<<20 {
			continue
		}
		// one stream per hostile frame (the server ends a stream at the first frame it cannot decode)
		ctx, cancel := context.WithTimeout(context.Background(), 2*time.Second)
		st, err := conn.NewStream(ctx, &grpc.StreamDesc{ServerStreams: true, ClientStreams: true}, "/ordering.Gorums/NodeStream", grpc.ForceCodec(passCodec{}))
		if err == nil {
			os.WriteFile(last, b, 0o644)
			if st.SendMsg(b) == nil {
				sent++
			}
			st.CloseSend()
			var reply []byte
			st.RecvMsg(&reply) // returns when the server ends the stream (or answers)
		}
		cancel()
		if (i%40 == 39 || i == n-1) && !alive() {
			lb, _ := os.ReadFile(logf.Name())
			ls := string(lb)
			if len(ls) > 3000 {
				ls = ls[:3000]
			}
			what := "the server process died or stopped answering after hostile frames were written to its NodeStream"
			sig := "remote-crash"
			if i := strings.Index(ls, "panic:"); i >= 0 {
				what += ": " + trunc(ls[i:], 200)
				sig += ":" + normPanic(strings.TrimPrefix(trunc(ls[i:], 200), "panic: "))
			}
			R.Violate(sig, what, map[string]any{"server_log": ls, "frames_sent": sent})
			os.Remove(last)
			return
		}
	}
	os.Remove(filepath.Join(os.TempDir(), fmt.Sprintf("c13-e2e-last-%d.bin", os.Getpid())))
	R.Count("e2e.hostile_frames_written_to_live_server", int64(sent))
	R.Eval("e2e-hostile", true)
}

// Serve runs n puppet servers until stdin closes (child process of the C13 and C12 engines).
// Commands on stdin: "STOP i", "START i", "CONNS" (answers "CONNS <live streams per server>").
func Serve(n int) {
	if n < 1 {
		n = 1
	}
	var srvs []*h.Srv
	for i := 0; i < n; i++ {
		s, err := h.NewSrv(i, uint32(i+1), "127.0.0.1:0", false)
		if err != nil {
			fmt.Println("ERR", err)
			os.Exit(1)
		}
		s.SetBehaviour(func(c *h.HCall) (*puppet.Rep, error) {
			if c.Req.GetKind() == 78 && c.Send != nil { // streams two replies, then never answers
				c.Send(c.Rep(0))
				c.Send(c.Rep(1))
			}
			if c.Req.GetKind() == 77 || c.Req.GetKind() == 78 { // never answers; releases its connection
				c.Ctx.Release()
				select {
				case <-c.S.Done():
				case <-c.Ctx.Done():
				}
				return nil, h.ErrSilent
			}
			return h.DefaultBehaviour(c)
		})
		srvs = append(srvs, s)
		fmt.Println("ADDR", s.Addr)
	}
	rd := bufio.NewReader(os.Stdin)
	for {
		line, err := rd.ReadString('\n')
		if err != nil {
			break
		}
		f := strings.Fields(line)
		if len(f) == 0 {
			continue
		}
		switch f[0] {
		case "STOP", "START":
			var i int
			fmt.Sscan(f[1], &i)
			if f[0] == "STOP" {
				srvs[i].Stop()
			} else {
				srvs[i].Restart()
			}
			fmt.Println("OK")
		case "CONNS":
			out := "CONNS"
			for _, s := range srvs {
				live := 0
				for _, ci := range s.Conns() {
					if ci.Ctx != nil && ci.Ctx.Err() == nil {
						live++
					}
				}
				out += fmt.Sprintf(" %d", live)
			}
			fmt.Println(out)
		}
	}
	for _, s := range srvs {
		s.Stop()
	}
}
