package eng

import (
	"context"
	"fmt"
	"math/rand"
	"strings"
	"sync"
	"sync/atomic"
	"time"

	"verif/internal/gen/puppet"
	"verif/internal/h"

	"github.com/relab/gorums"
	"github.com/relab/gorums/tests/dummy"
	"google.golang.org/grpc/codes"
	"google.golang.org/grpc/status"
)

// probeAll sends a probe RPC with a fresh context to every node (up to 3
// attempts each). It returns the indices of unusable nodes with hang info.
func probeAll(e *Env, cl *h.Cluster, label string) (bad []int, witness map[int]h.HangInfo) {
	witness = map[int]h.HangInfo{}
	for i := range cl.Srvs {
		ok := false
		var last h.HangInfo
		var lastErr error
		for attempt := 0; attempt < 3 && !ok; attempt++ {
			tok := h.NewToken()
			req := &puppet.Req{Call: tok, Seq: tok, Kind: 99, Pad: []byte("probe")}
			var rep *puppet.Rep
			var err error
			ctx, cancel := context.WithTimeout(context.Background(), e.W+3*time.Second)
			t := h.Go("probe:"+label, func() { rep, err = cl.Node(i).RPC(ctx, req) })
			hi := h.Await(t, e.W)
			cancel()
			if hi.Verdict != h.Returned {
				last = hi
				break // a parked probe is a witness; do not pile up more
			}
			lastErr = err
			if err == nil && rep.GetCall() == tok && rep.GetNode() == cl.IDs[i] {
				ok = true
			} else {
				time.Sleep(20 * time.Millisecond)
			}
		}
		if !ok {
			if last.Verdict == h.Returned && lastErr != nil {
				last.State = "probe failed 3 times: " + lastErr.Error()
				last.Verdict = h.Hung
				last.Sig = "probe-error:" + errClass(lastErr)
			}
			bad = append(bad, i)
			witness[i] = last
		}
	}
	return bad, witness
}

func errClass(err error) string {
	s := err.Error()
	switch {
	case strings.Contains(s, "stream is down"):
		return "stream is down"
	case strings.Contains(s, "context deadline exceeded"):
		return "deadline"
	case strings.Contains(s, "channel closed"):
		return "channel closed"
	}
	if len(s) > 60 {
		s = s[:60]
	}
	return s
}

// usablePhase is one workload phase of the C09 engine.
type usablePhase struct {
	Kind     string `json:"kind"`
	N        int    `json:"n"`
	Buffer   uint   `json:"send_buffer"`
	Calls    int    `json:"calls"`
	Workers  int    `json:"goroutines"`
	SlowQF   bool   `json:"slow_qf"`
	StreamK  int    `json:"stream_replies"`
	PCT      bool   `json:"pct"`
	Procs    int    `json:"gomaxprocs"`
	Directed string `json:"directed,omitempty"`
}

// RunUsable is the engine behind C09.
func RunUsable(e *Env) {
	R := e.R
	R.Rule = "workload phases of concurrent and sequential calls of all 21 kinds with cancellation at random instants (before/during/after sending), slow quorum functions, slow and streaming servers, handlers failing one invocation in seven (calls ending by node errors), PCT delays at all channel hook points, " +
		"plus directed scripts (stale-broken window of reconnect held open with hooks; server streams outrunning a finished correctable; cancellation while a write is blocked by flow control; 600 sequential send-waiting one-way calls each cancelled right after it returned, all of which must arrive; calls to a method the node's server does not serve); " +
		"after every phase, with servers answering instantly, a probe RPC with a fresh context to every node (3 attempts); distinct = phase parameters; non-trivial = >=2 calls with cancellation or streaming"
	R.Assume("a first probe attempt may legitimately fail with 'stream is down' while the stream is being re-created; a node is unusable only if 3 attempts fail or a probe stays parked (hang rule)")
	rng := e.Rand(9)
	nphase := e.Pick(120, 6000)
	var phases []usablePhase
	// directed scripts first
	for rep := 0; rep < e.Pick(6, 40); rep++ {
		phases = append(phases,
			usablePhase{Kind: "directed", Directed: "stale-broken", N: 1 + rep%3, Calls: 4},
			usablePhase{Kind: "directed", Directed: "stream-outruns-finished-correctable", N: 1 + rep%3, StreamK: 200 + 400*(rep%4), Calls: 1},
			usablePhase{Kind: "directed", Directed: "cancel-while-write-blocked", N: 1 + rep%2, Calls: 8},
			usablePhase{Kind: "directed", Directed: "cancel-right-after-return", N: 1 + rep%3, Calls: 300},
			usablePhase{Kind: "directed", Directed: "oneway-cancel-right-after-return", N: 1 + rep%3, Calls: 600},
			usablePhase{Kind: "directed", Directed: "call-to-unserved-method", N: 1 + rep%3, Calls: 3},
			usablePhase{Kind: "directed", Directed: "stream-outruns-while-peer-sender-is-jammed", N: 2 + rep%2, StreamK: 100 + 100*(rep%3), Calls: 1},
		)
	}
	for i := 0; i < nphase; i++ {
		phases = append(phases, usablePhase{Kind: "random", N: 1 + rng.Intn(5), Buffer: []uint{0, 1, 4, 64}[rng.Intn(4)], Calls: 20 + rng.Intn(120),
			Workers: 1 + rng.Intn(8), SlowQF: rng.Intn(3) == 0, StreamK: []int{0, 2, 20, 300}[rng.Intn(4)], PCT: rng.Intn(2) == 0})
	}
	hangSeen := map[string]bool{}
	var mu sync.Mutex
	for i, ph := range phases {
		if e.Of > 1 && i%e.Of != e.Batch {
			continue
		}
		if R.NumViolations() > 8 {
			break
		}
		mu.Lock()
		skip := ph.Kind == "directed" && hangSeen[ph.Directed]
		mu.Unlock()
		if skip {
			R.Count("skipped_after_hang", 1)
			continue
		}
		sig := runUsablePhase(e, i, ph)
		if sig != "" && ph.Kind == "directed" {
			mu.Lock()
			hangSeen[ph.Directed] = true
			mu.Unlock()
		}
	}
}

func runUsablePhase(e *Env, idx int, ph usablePhase) string {
	R := e.R
	jam := ph.Directed == "stream-outruns-while-peer-sender-is-jammed"
	cl, err := h.NewCluster(h.Options{N: ph.N, Block: true, DialTimeout: 2 * time.Second, SendBuffer: ph.Buffer, Proxies: jam})
	if err != nil {
		R.Inconc("cluster: " + err.Error())
		return ""
	}
	defer cl.Close()
	var hold atomic.Bool // handlers hold their connection while set
	release := make(chan struct{})
	var relOnce sync.Once
	openHold := func() { relOnce.Do(func() { close(release) }) }
	defer openHold()
	streamK := ph.StreamK
	var handlerErrors atomic.Int64
	cl.SetBehaviour(func(c *h.HCall) (*puppet.Rep, error) {
		if c.Req.GetKind() == 99 { // probe
			return c.Rep(0), nil
		}
		if hold.Load() {
			select {
			case <-release:
			case <-c.S.Done():
				return nil, h.ErrSilent
			}
		}
		// calls also end by node errors: in random phases one handler invocation in seven fails
		fails := ph.Kind == "random" && (c.Req.GetCall()+uint64(c.S.Index))%7 == 3
		if c.Send != nil {
			for i := 0; i < streamK; i++ {
				if fails && i == streamK/2 {
					break
				}
				if err := c.Send(c.Rep(uint32(i))); err != nil {
					return nil, err
				}
			}
			if fails {
				handlerErrors.Add(1)
				return nil, status.Error(codes.ResourceExhausted, "scripted handler failure")
			}
			return nil, nil
		}
		if fails {
			handlerErrors.Add(1)
			return nil, status.Error(codes.ResourceExhausted, "scripted handler failure")
		}
		return c.Rep(0), nil
	})
	defer func() { R.Count("handler_invocations_answered_with_an_error", handlerErrors.Load()) }()
	if ph.PCT && e.Hooks != nil {
		e.Hooks.SetDelay(h.PCT(e.Seed, int64(idx)))
		defer e.Hooks.SetDelay(nil)
	}
	if e.Hooks != nil {
		// interleaving signature of this phase: hash of the global order of hook events (phases run one at a time per process)
		e.Hooks.StartTrace()
		defer func() {
			sig, ev := e.Hooks.StopTrace()
			if len(ev) > 0 {
				R.Seen("interleaving_signatures(first 64 listed)", fmt.Sprintf("%016x(%d events)", sig, len(ev)))
				R.Count("phases_with_recorded_interleaving", 1)
			}
		}()
	}
	rng := rand.New(rand.NewSource(e.Seed*31 + int64(idx)))
	var tasks []*h.Task
	cancels := 0
	issue := func(method string, node int, threshold int, slowQF bool, cancelAfter time.Duration, cancelNow bool, pad int) *h.Task {
		tok := h.NewToken()
		req := &puppet.Req{Call: tok, Seq: tok, Kind: 9, Pad: make([]byte, pad)}
		mon := &h.CallMon{Token: tok, Orig: req, Decide: func(inv *h.Inv) (bool, int) { return threshold > 0 && len(inv.Keys) >= threshold, len(inv.Keys) }}
		if slowQF {
			mon.Hook = func(int) { time.Sleep(300 * time.Microsecond) }
		}
		cl.QS.Register(mon)
		ctx, cancel := context.WithCancel(context.Background())
		op := &Op{Method: method, Node: node, Threshold: threshold}
		t := h.Go("wl:"+method, func() {
			w := Invoke(cl, cl.Cfg, op, ctx, req)
			if cancelNow {
				cancel()
			}
			if w != nil {
				w()
			}
		})
		if cancelAfter >= 0 {
			cancels++
			go func() { time.Sleep(cancelAfter); cancel() }()
		}
		_ = cancel
		return t
	}
	directedNote := ""
	switch ph.Directed {
	case "stale-broken":
		if e.Hooks == nil {
			return ""
		}
		// break the stream of node 0 by cancelling a call whose write is delayed, then steer:
		// hold the sender at con.broken until the receiver has re-created the stream and parked again.
		id := cl.IDs[0]
		hw := e.Hooks.Hold("snd.beforeWrite", id, 0, 2*time.Second)
		t1 := issue("RPC", 0, 0, false, -1, false, 0)
		select {
		case <-hw.Reached():
		case <-time.After(time.Second):
		}
		// the write is held: end the call's context now (=> watcher cancels the stream when the write proceeds)
		tasks = append(tasks, t1)
		hb := e.Hooks.Hold("con.broken", id, 0, 3*time.Second)
		parked0 := e.Hooks.Count("rcv.parked", id)
		hwc := e.Hooks.Hold("wat.beforeCancel", id, 0, 2*time.Second)
		_ = hwc
		// cancel by issuing the cancellation through a second call sharing nothing: simply cancel t1's ctx via a short-lived helper
		// (issue() returns the task only; use a dedicated call here)
		ctx, cancel := context.WithCancel(context.Background())
		tok := h.NewToken()
		req := &puppet.Req{Call: tok, Seq: tok, Kind: 9}
		hw.Release()
		hw2 := e.Hooks.Hold("snd.beforeWrite", id, 0, 2*time.Second)
		t2 := h.Go("wl:RPC-cancelled-during-write", func() { cl.Node(0).RPC(ctx, req) })
		select {
		case <-hw2.Reached():
		case <-time.After(time.Second):
		}
		cancel() // context ends while the request is "being written"
		cancels++
		hwc.Release()
		hw2.Release()
		tasks = append(tasks, t2)
		// next request finds the flag set (or not): the sender may reach con.broken
		t3 := issue("RPC", 0, 0, false, -1, false, 0)
		tasks = append(tasks, t3)
		select {
		case <-hb.Reached():
			// sender is inside connect() having read "broken"; wait until the receiver has reconnected and parked again
			e.Hooks.WaitCount("rcv.parked", id, parked0+1, 2*time.Second)
			time.Sleep(5 * time.Millisecond)
			directedNote = "sender held at con.broken until receiver parked again"
			R.Count("directed.stale_broken_window_reached", 1)
		case <-time.After(1500 * time.Millisecond):
			directedNote = "window not reached (not steered)"
		}
		hb.Release()
		e.Hooks.Disarm(hb)
		e.Hooks.Disarm(hw)
		e.Hooks.Disarm(hw2)
		e.Hooks.Disarm(hwc)
	case "stream-outruns-finished-correctable":
		for i := 0; i < ph.Calls; i++ {
			// done at the first reply (threshold 1) while every server streams StreamK replies
			tasks = append(tasks, issue("CorrStream", 0, 1, false, -1, false, 0))
		}
		R.Count("directed.stream_outruns", 1)
	case "stream-outruns-while-peer-sender-is-jammed":
		// the last node (enqueued last) does not read: its flow-control window fills and its sender blocks in a write, so the
		// streaming correctable stays inside its enqueue loop while the first node already streams; the quorum function is done at the first reply
		last := ph.N - 1
		cl.Proxies[last].SetMode(h.Stall)
		for k := 0; k < 12; k++ {
			tok := h.NewToken()
			req := &puppet.Req{Call: tok, Seq: tok, Kind: 9, Pad: make([]byte, 48<<10)}
			go cl.Node(last).Uni(context.Background(), req, gorums.WithNoSendWaiting())
		}
		time.Sleep(30 * time.Millisecond)
		tasks = append(tasks, issue("CorrStream", 0, 1, false, -1, false, 0))
		time.Sleep(50 * time.Millisecond)
		// node 0 must be usable while the peer is still jammed
		tok := h.NewToken()
		preq := &puppet.Req{Call: tok, Seq: tok, Kind: 99}
		pctx, pcancel := context.WithTimeout(context.Background(), e.W+3*time.Second)
		var prep *puppet.Rep
		var perr error
		pt := h.Go("probe:while-peer-jammed", func() { prep, perr = cl.Node(0).RPC(pctx, preq) })
		hi := h.Await(pt, e.W)
		pcancel()
		cl.Proxies[last].SetMode(h.Pass)
		R.Count("directed.stream_outruns_with_jammed_peer", 1)
		if hi.Verdict == h.Hung || (hi.Verdict == h.Returned && (perr != nil || prep.GetCall() != tok)) {
			oth := map[string]bool{}
			for _, o := range hi.Others {
				oth[o] = true
			}
			var ol []string
			for o := range oth {
				ol = append(ol, o)
			}
			sortStrings(ol)
			R.Violate(wedgeClass(hi, ol), fmt.Sprintf("healthy node unusable while a finished streaming correctable is still enqueueing to a jammed peer: probe %s %v; parked: %v", hi.Sig, perr, ol),
				map[string]any{"phase": ph, "probe_stack": hi.Stack, "parked": ol})
			return "wedge"
		}
	case "cancel-while-write-blocked":
		// handlers hold their connection; large payloads fill the flow-control window so that SendMsg blocks; then cancel
		hold.Store(true)
		for i := 0; i < ph.Calls; i++ {
			tasks = append(tasks, issue("QC", 0, ph.N, false, time.Duration(30+10*i)*time.Millisecond, false, 48<<10))
		}
		time.Sleep(time.Duration(30+10*ph.Calls+50) * time.Millisecond)
		hold.Store(false)
		openHold()
		R.Count("directed.cancel_while_blocked", 1)
	case "cancel-right-after-return":
		// send-waiting one-way calls whose context is cancelled immediately after they return (defer cancel() pattern)
		for i := 0; i < ph.Calls; i++ {
			m := []string{"Uni", "Multi", "RPC", "QC"}[i%4]
			t := issue(m, i%ph.N, ph.N, false, -1, true, 0)
			<-t.Done
		}
		R.Count("directed.cancel_after_return", 1)
	case "call-to-unserved-method":
		// a request for a method the node's server does not serve (another service's method, known to the codec): the server has
		// nothing to answer it with, so the call ends with its context; the node must serve its own methods afterwards
		for i := 0; i < ph.Calls; i++ {
			ctx, cancel := context.WithTimeout(context.Background(), 100*time.Millisecond)
			node := cl.Node(i % ph.N)
			t := h.Go("wl:unserved", func() {
				node.RawNode.RPCCall(ctx, gorums.CallData{Message: &dummy.Empty{}, Method: "dummy.Dummy.Test"})
			})
			hi := h.Await(t, e.W)
			cancel()
			if hi.Verdict == h.Hung {
				R.Violate("unusable:"+hi.Sig, "call to a method the server does not serve does not return after its context ended: "+hi.Sig, map[string]any{"phase": ph, "stack": hi.Stack})
				return hi.Sig
			}
		}
		R.Count("directed.calls_to_a_method_the_server_does_not_serve", int64(ph.Calls))
	case "oneway-cancel-right-after-return":
		// the same pattern with send-waiting one-way calls only, and the clause "later calls to it are delivered": such a call
		// returns after its write has been confirmed, so ending its context afterwards concerns nobody; every message arrives
		want := make([]map[uint64]bool, ph.N)
		for i := range want {
			want[i] = map[uint64]bool{}
		}
		for i := 0; i < ph.Calls; i++ {
			tok := h.NewToken()
			req := &puppet.Req{Call: tok, Seq: tok, Kind: 9}
			ctx, cancel := context.WithCancel(context.Background())
			node := i % ph.N
			multi := i%3 == 2
			t := h.Go("wl:oneway", func() {
				if multi {
					cl.Cfg.Multi(ctx, req)
				} else {
					cl.Node(node).Uni(ctx, req)
				}
				cancel()
			})
			if hi := h.Await(t, e.W); hi.Verdict != h.Returned {
				cancel()
				R.Violate("unusable:"+hi.Sig, "send-waiting one-way call to a reachable node does not return: "+hi.Sig, map[string]any{"phase": ph, "stack": hi.Stack})
				return hi.Sig
			}
			if multi {
				for j := range want {
					want[j][tok] = true
				}
			} else {
				want[node][tok] = true
			}
		}
		missing := func() int {
			m := 0
			for j, s := range cl.Srvs {
				got := map[uint64]bool{}
				for _, en := range s.Log() {
					got[en.Call] = true
				}
				for tok := range want[j] {
					if !got[tok] {
						m++
					}
				}
			}
			return m
		}
		for dl := time.Now().Add(e.W); missing() > 0 && time.Now().Before(dl); {
			time.Sleep(5 * time.Millisecond)
		}
		if m := missing(); m > 0 {
			var resets int64
			if e.Hooks != nil {
				for _, id := range cl.IDs {
					resets += e.Hooks.Count("wat.beforeCancel", id)
				}
			}
			R.Violate("later-calls-not-delivered", fmt.Sprintf("%d of %d sequential send-waiting one-way calls to reachable nodes were never delivered; each context was cancelled only after its call had returned (stream resets by the cancellation watcher: %d)", m, ph.Calls, resets), map[string]any{"phase": ph})
			return "later-calls-not-delivered"
		}
		R.Count("directed.oneway_cancel_after_return_calls_all_delivered", int64(ph.Calls))
	default:
		var wg sync.WaitGroup
		per := ph.Calls / ph.Workers
		var tmu sync.Mutex
		for w := 0; w < ph.Workers; w++ {
			wg.Add(1)
			wr := rand.New(rand.NewSource(rng.Int63()))
			go func() {
				defer wg.Done()
				for k := 0; k <= per; k++ {
					m := allMethods[wr.Intn(len(allMethods))]
					ca := time.Duration(-1)
					now := false
					switch wr.Intn(6) {
					case 0:
						ca = 0
					case 1:
						ca = time.Duration(wr.Intn(400)) * time.Microsecond
					case 2:
						now = true
					}
					th := 1 + wr.Intn(ph.N)
					t := issue(m, wr.Intn(ph.N), th, ph.SlowQF, ca, now, []int{0, 0, 100, 20000}[wr.Intn(4)])
					tmu.Lock()
					tasks = append(tasks, t)
					tmu.Unlock()
					if wr.Intn(2) == 0 {
						select {
						case <-t.Done:
						case <-time.After(5 * time.Millisecond):
						}
					}
				}
			}()
		}
		wg.Wait()
	}
	// let the workload settle (bounded; unfinished calls are not this property's concern unless the node is unusable)
	sctx, scancel := context.WithTimeout(context.Background(), 1500*time.Millisecond)
	for _, t := range tasks {
		select {
		case <-t.Done:
		case <-sctx.Done():
		}
	}
	scancel()
	if e.Hooks != nil {
		e.Hooks.SetDelay(nil)
	}
	openHold()
	hold.Store(false)
	bad, wit := probeAll(e, cl, ph.Kind)
	sig := fmt.Sprintf("%v|%d", ph, idx)
	R.Eval(sig, ph.Calls >= 2)
	R.Count("probes", int64(len(cl.Srvs)))
	R.Count("calls_issued", int64(len(tasks)))
	R.Count("cancellations", int64(cancels))
	R.Seen("phase_kinds", ph.Kind+":"+ph.Directed)
	R.Sample(map[string]any{"phase": ph, "calls": len(tasks), "cancellations": cancels, "unusable_nodes": bad, "note": directedNote})
	if len(bad) == 0 {
		return ""
	}
	first := wit[bad[0]]
	if first.Verdict == h.Inconclusive {
		R.Inconc("probe inconclusive: " + first.State)
		return ""
	}
	// signature: parked frame of the probe plus the non-idle library goroutines (deduplicated, sorted)
	oth := map[string]bool{}
	for _, o := range first.Others {
		oth[o] = true
	}
	var ol []string
	for o := range oth {
		ol = append(ol, o)
	}
	sortStrings(ol)
	vsig := "unusable:" + first.Sig + "|" + strings.Join(ol, ",")
	if len(vsig) > 300 {
		vsig = vsig[:300]
	}
	R.Violate(wedgeClass(first, ol), fmt.Sprintf("node unusable after phase (%s %s): probe %s; parked library goroutines: %v", ph.Kind, ph.Directed, first.Sig, ol),
		map[string]any{"phase": ph, "unusable_nodes": bad, "probe_state": first.State, "probe_stack": first.Stack, "parked": ol, "full_signature": vsig, "note": directedNote, "stacks": first.Dump})
	return vsig
}

// wedgeClass maps a witness to a short canonical signature.
func wedgeClass(hi h.HangInfo, others []string) string {
	has := func(s string) bool {
		for _, o := range others {
			if strings.Contains(o, s) {
				return true
			}
		}
		return false
	}
	switch {
	case has("RWMutex.Lock@(*channel).reconnect"):
		return "wedge:sender@reconnect.Lock|receiver@RecvMsg"
	case has("chan send@(*channel).routeResponse"):
		return "wedge:receiver@routeResponse.send(full reply channel of a finished call)"
	case has("chan send@(*channel).cancelPendingMsgs"):
		return "wedge:receiver@cancelPendingMsgs.send(full reply channel)"
	}
	return "unusable:" + hi.Sig
}

func sortStrings(s []string) {
	for i := 1; i < len(s); i++ {
		for j := i; j > 0 && s[j] < s[j-1]; j-- {
			s[j], s[j-1] = s[j-1], s[j]
		}
	}
}
