package eng

import (
	"context"
	"fmt"
	"time"

	"verif/internal/gen/puppet"
	"verif/internal/h"

	"google.golang.org/grpc/backoff"
)

// runOnewayAcrossStreamBreak: a node's connection is reset (through the proxy in front of its server, which stays up and goes on
// accepting) at the instant its sender is about to write a one-way message (sender held at snd.beforeWrite); the client notices
// (rcv.err), the held write then goes ahead on the dead stream. Whatever becomes of that one message, the node is reachable:
// the one-way calls that follow, all with context.Background(), return (hang rule) and are delivered exactly once each.
func runOnewayAcrossStreamBreak(e *Env, rep int) {
	R := e.R
	if e.Hooks == nil {
		return
	}
	n := 1 + rep%2
	bo := backoff.Config{BaseDelay: 20 * time.Millisecond, Multiplier: 1.6, Jitter: 0.2, MaxDelay: 100 * time.Millisecond}
	cl, err := h.NewCluster(h.Options{N: n, Block: true, DialTimeout: 2 * time.Second, Proxies: true, Backoff: &bo, SendBuffer: uint([]int{0, 0, 2}[rep%3])})
	if err != nil {
		R.Inconc("cluster: " + err.Error())
		return
	}
	defer cl.Close()
	x := rep % n
	id := cl.IDs[x]
	uni := func(tok uint64, second bool) *h.Task {
		req := &puppet.Req{Call: tok, Seq: tok, Kind: 6}
		return h.Go("oneway:across-break", func() {
			if second {
				cl.Node(x).Uni2(context.Background(), req)
			} else {
				cl.Node(x).Uni(context.Background(), req)
			}
		})
	}
	hold := e.Hooks.Hold("snd.beforeWrite", id, 0, 3*time.Second)
	defer e.Hooks.Disarm(hold)
	tok1 := h.NewToken()
	t1 := uni(tok1, false)
	steered := false
	select {
	case <-hold.Reached():
		before := e.Hooks.Count("rcv.err", id)
		parked := e.Hooks.Count("rcv.parked", id)
		cl.Proxies[x].Reset()
		if e.Hooks.WaitCount("rcv.err", id, before+1, 2*time.Second) {
			// give the receiver the chance to re-create the stream while the sender is still held (it cannot on a correct
			// client: the sender holds the stream lock; either way the write below goes to the dead stream)
			e.Hooks.WaitCount("rcv.parked", id, parked+1, time.Duration(20+10*(rep%4))*time.Millisecond)
			steered = true
		}
	case <-time.After(2 * time.Second):
	}
	hold.Release()
	if hi := h.Await(t1, e.W); hi.Verdict == h.Hung {
		R.Violate("oneway-stalls:"+hi.Sig, "the send-waiting one-way call whose write met a connection reset did not return: "+hi.Sig, map[string]any{"stack": hi.Stack, "steered": steered})
		return
	}
	// the calls that follow
	const K = 6
	var toks []uint64
	for k := 0; k < K; k++ {
		tok := h.NewToken()
		toks = append(toks, tok)
		t := uni(tok, k%2 == 1)
		hi := h.Await(t, e.W)
		if hi.Verdict == h.Hung {
			R.Violate("oneway-stalls:"+hi.Sig, fmt.Sprintf("one-way call %d after a connection reset that struck during a write: the node is reachable, the call does not return: %s", k+1, hi.Sig), map[string]any{"stack": hi.Stack, "others": hi.Others, "steered": steered, "node_trace(diagnosis)": e.Hooks.NodeTrace(id)})
			return
		} else if hi.Verdict == h.Inconclusive {
			R.Inconc("await: " + hi.State)
			return
		}
	}
	// exactly-once delivery of the later calls (the first one's fate is open)
	var missing []uint64
	for wait := 0; wait < 100; wait++ {
		count := map[uint64]int{}
		for _, en := range cl.Srvs[x].Log() {
			count[en.Call]++
		}
		missing = missing[:0]
		for _, tok := range toks {
			if count[tok] > 1 {
				R.Violate("oneway-delivered-twice", fmt.Sprintf("one-way call %d was handled %d times", tok, count[tok]), nil)
				return
			}
			if count[tok] == 0 {
				missing = append(missing, tok)
			}
		}
		if count[tok1] > 1 {
			R.Violate("oneway-delivered-twice", fmt.Sprintf("the one-way call whose write met the reset was handled %d times", count[tok1]), nil)
			return
		}
		if len(missing) == 0 {
			break
		}
		time.Sleep(20 * time.Millisecond)
	}
	if len(missing) > 0 {
		R.Violate("oneway-not-delivered", fmt.Sprintf("%d of %d one-way calls made (context.Background, send-waiting, each returned) after a connection reset that struck during a write were never handled by the reachable server", len(missing), K), map[string]any{"steered": steered, "node_trace(diagnosis)": e.Hooks.NodeTrace(id)})
		return
	}
	R.Eval(fmt.Sprintf("oneway-across-break|n=%d|x=%d|%d", n, x, rep), steered)
	if steered {
		R.Count("oneway.connection_reset_while_sender_held_before_write", 1)
	}
	R.Count("oneway.delivered_after_a_break_during_a_write", K)
}
