package eng

import (
	"context"
	"errors"
	"fmt"
	"math/rand"
	"strings"
	"sync"
	"sync/atomic"
	"time"

	"verif/internal/gen/puppet"
	"verif/internal/h"

	"github.com/relab/gorums"
)

// RunPerNode is the engine behind C06.
func RunPerNode(e *Env) {
	R := e.R
	R.Rule = "part A: every configuration-level call type (QC*, Async*, Corr*, CorrStream*, Multi, MultiPN) with and without a per-node function (identity, per-node distinct payloads, skipping any subset incl. all nodes), n in 1..6: " +
		"after quiescence each server's entry log holds exactly one entry per targeted (call, node) whose received request digest equals digest(f(req, id)) (or digest(req)), none for skipped nodes; a quorum function with threshold = targeted count must succeed, " +
		"a never-quorum function must yield Incomplete with errors+replies = targeted; part B: with every handler gated shut (holding its connection), send-waiting Uni/Multi/MultiPN must return (hang rule); " +
		"with no-send-waiting they must return while the node's sender goroutine is held at the snd.beforeWrite hook (before any write or confirmation exists); then the gates open and delivery is exactly once, also for messages sent (context.Background, 4 goroutines, buffered and unbuffered send queue) while other goroutines issue calls with already-ended contexts on the same nodes; a connection reset (server stays up) striking while the sender is held before the write of a one-way message: the calls that follow return and are delivered exactly once; distinct = case parameters"
	R.Assume("digest covers every request field (call, seq, target, kind, script, pad)")
	rng := e.Rand(6)
	ncase := e.Pick(2000, 100000)
	var wg sync.WaitGroup
	sem := make(chan struct{}, 8)
	for i := 0; i < ncase; i++ {
		if e.Of > 1 && i%e.Of != e.Batch {
			continue
		}
		if R.NumViolations() > 10 {
			break
		}
		r := rand.New(rand.NewSource(rng.Int63()))
		sem <- struct{}{}
		wg.Add(1)
		go func(i int) {
			defer wg.Done()
			defer func() { <-sem }()
			runPerNodeCase(e, i, r)
		}(i)
	}
	wg.Wait()
	// part B: one at a time (uses holds on the global hook)
	nb := e.Pick(60, 2000)
	for i := 0; i < nb; i++ {
		if e.Of > 1 && i%e.Of != e.Batch {
			continue
		}
		if R.NumViolations() > 10 {
			break
		}
		runOnewayCase(e, i, rand.New(rand.NewSource(rng.Int63())))
	}
	for rep := 0; rep < e.Pick(12, 200); rep++ {
		if e.Of > 1 && rep%e.Of != e.Batch {
			continue
		}
		if R.NumViolations() > 10 {
			break
		}
		runOnewayAcrossStreamBreak(e, rep)
	}
}

var pnMethods = []string{"QC", "QCPN", "QCCustom", "QCCombo", "Async", "AsyncPN", "AsyncCustom", "AsyncCombo", "Corr", "CorrPN", "CorrCustom", "CorrCombo",
	"CorrStream", "CorrStreamPN", "CorrStreamCustom", "CorrStreamCombo", "Multi", "MultiPN"}

func runPerNodeCase(e *Env, idx int, rng *rand.Rand) {
	R := e.R
	n := 1 + rng.Intn(6)
	cl, err := h.NewCluster(h.Options{N: n, Block: true, DialTimeout: 2 * time.Second, SendBuffer: []uint{0, 2}[rng.Intn(2)]})
	if err != nil {
		R.Inconc("cluster: " + err.Error())
		return
	}
	defer cl.Close()
	cl.SetBehaviour(func(c *h.HCall) (*puppet.Rep, error) {
		if c.Send != nil {
			c.Send(c.Rep(0))
			return nil, errors.New("stream end") // a stream ends visibly by failing
		}
		return c.Rep(0), nil
	})
	type exp struct {
		digest uint64
		method string
	}
	expected := make([]map[uint64]exp, n)
	for i := range expected {
		expected[i] = map[uint64]exp{}
	}
	ncalls := 6 + rng.Intn(10)
	var samples []map[string]any
	for k := 0; k < ncalls; k++ {
		m := pnMethods[rng.Intn(len(pnMethods))]
		tok := h.NewToken()
		req := &puppet.Req{Call: tok, Seq: uint64(k + 1), Kind: 6, Pad: []byte(fmt.Sprintf("base-%d", tok))}
		skipIdx := map[int]bool{}
		skip := map[uint32]bool{}
		mode := "none"
		if IsPN(m) {
			switch rng.Intn(4) {
			case 0:
				mode = "distinct-payloads"
			case 1:
				mode = "skip-subset"
				for i := 0; i < n; i++ {
					if rng.Intn(2) == 0 {
						skipIdx[i] = true
					}
				}
			case 2:
				mode = "skip-all"
				for i := 0; i < n; i++ {
					skipIdx[i] = true
				}
			default:
				mode = "skip-one"
				skipIdx[rng.Intn(n)] = true
			}
			for i := range skipIdx {
				skip[cl.IDs[i]] = true
			}
		}
		f := PN(skip)
		targeted := 0
		for i := 0; i < n; i++ {
			if IsPN(m) {
				if skipIdx[i] {
					continue
				}
				expected[i][tok] = exp{h.Digest(f(req, cl.IDs[i])), m}
			} else {
				expected[i][tok] = exp{h.Digest(req), m}
			}
			targeted++
		}
		never := rng.Intn(3) == 0
		mon := &h.CallMon{Token: tok, Orig: req, Decide: func(inv *h.Inv) (bool, int) { return !never && len(inv.Keys) >= targeted, len(inv.Keys) }}
		cl.QS.Register(mon)
		var out Outcome
		stream := strings.HasPrefix(m, "CorrStream")
		t := h.Go("c06:"+m, func() {
			ctx := context.Background()
			switch {
			case m == "Multi":
				cl.Cfg.Multi(ctx, req)
			case m == "MultiPN":
				cl.Cfg.MultiPN(ctx, req, f)
			case strings.HasPrefix(m, "QC"):
				out = CallQC(cl.Cfg, m, ctx, req, f)
			case strings.HasPrefix(m, "Async"):
				out = StartAsync(cl.Cfg, m, ctx, req, f).Get()
			default:
				c := StartCorr(cl.Cfg, m, ctx, req, f)
				<-c.Done()
				o, _ := c.Get()
				out = o
			}
		})
		hi := h.Await(t, e.W)
		det := map[string]any{"method": m, "n": n, "per_node_mode": mode, "skipped": len(skipIdx), "targeted": targeted, "never_quorum": never}
		if hi.Verdict == h.Hung {
			R.Violate("waits-for-skipped-node:"+hi.Sig, fmt.Sprintf("%s with %d of %d nodes skipped did not return although every targeted node answered: %s", m, len(skipIdx), n, hi.Sig), det)
			return
		} else if hi.Verdict == h.Inconclusive {
			R.Inconc("await: " + hi.State)
			return
		}
		if !strings.HasPrefix(m, "Multi") {
			switch {
			case targeted == 0 || never || stream && targeted > 0 && never:
				if out.Err == nil && !(stream) {
					R.Violate("no-quorum-but-success", m+": success although the quorum function never reported a quorum", det)
				} else if out.Err != nil {
					if !errors.Is(out.Err, gorums.Incomplete) {
						R.Violate("skipped-node-accounting", m+": expected Incomplete, got "+out.Err.Error(), det)
					} else if pe, ok := parseQCErr(out.Err.Error()); ok && !stream && pe.Errors+pe.Replies != targeted {
						R.Violate("skipped-node-counted", fmt.Sprintf("%s: errors %d + replies %d != targeted %d (skipped nodes must not be counted)", m, pe.Errors, pe.Replies, targeted), det)
					}
				}
			default:
				if out.Err != nil {
					R.Violate("threshold-equals-targeted-fails", fmt.Sprintf("%s: quorum function with threshold = number of targeted nodes (%d) did not succeed: %v", m, targeted, out.Err), det)
				}
			}
			// every invocation saw replies to the right per-node request
			for _, inv := range mon.Invs() {
				for id, r := range inv.Reps {
					i := cl.Index(id)
					if i < 0 || skipIdx[i] && IsPN(m) {
						R.Violate("reply-from-skipped-node", fmt.Sprintf("%s: reply from node %d which was skipped", m, id), det)
					} else if r.Digest != expected[i][tok].digest {
						R.Violate("wrong-per-node-message", fmt.Sprintf("%s: node %d answered a request that is not f(req, %d)", m, id, id), det)
					}
				}
			}
		}
		if len(samples) < 2 {
			samples = append(samples, det)
		}
		R.Seen("methods", m)
		R.Seen("per_node_modes", mode)
	}
	// quiescence: every expected entry present
	deadline := time.Now().Add(e.W)
	missing := func() int {
		mi := 0
		for i, s := range cl.Srvs {
			seen := map[uint64]bool{}
			for _, en := range s.Log() {
				seen[en.Call] = true
			}
			for tok := range expected[i] {
				if !seen[tok] {
					mi++
				}
			}
		}
		return mi
	}
	for missing() > 0 && time.Now().Before(deadline) {
		time.Sleep(2 * time.Millisecond)
	}
	if mi := missing(); mi > 0 {
		R.Violate("message-not-delivered", fmt.Sprintf("%d targeted (call, node) pairs were never delivered although all nodes are reachable and nothing was cancelled", mi), map[string]any{"n": n})
	}
	entries := 0
	for i, s := range cl.Srvs {
		cnt := map[uint64]int{}
		for _, en := range s.Log() {
			entries++
			cnt[en.Call]++
			ex, ok := expected[i][en.Call]
			switch {
			case !ok:
				R.Violate("delivered-to-skipped-node", fmt.Sprintf("server %d received a message of call %d (%s) although it was skipped / not targeted", i, en.Call, en.Method), map[string]any{"entry": en})
			case en.Digest != ex.digest:
				R.Violate("wrong-per-node-message", fmt.Sprintf("server %d received for %s a request that differs from f(req, id) / req", i, ex.method), map[string]any{"entry": en})
			case en.Method != ex.method:
				R.Violate("wrong-method", fmt.Sprintf("server %d ran handler %s for a %s call", i, en.Method, ex.method), map[string]any{"entry": en})
			case cnt[en.Call] > 1:
				R.Violate("delivered-twice", fmt.Sprintf("server %d received call %d twice", i, en.Call), map[string]any{"entry": en})
			}
		}
	}
	R.Eval(fmt.Sprintf("A|%d|%d|%d", n, ncalls, idx), true)
	R.Count("calls", int64(ncalls))
	R.Count("handler_entries", int64(entries))
	for _, s := range samples {
		R.Sample(s)
	}
}

// runOnewayCase: one-way calls never wait for handlers (nor, with no-send-waiting, for the connection).
func runOnewayCase(e *Env, idx int, rng *rand.Rand) {
	R := e.R
	n := 1 + rng.Intn(4)
	buf := []uint{0, 1, 4}[rng.Intn(3)]
	cl, err := h.NewCluster(h.Options{N: n, Block: true, DialTimeout: 2 * time.Second, SendBuffer: buf})
	if err != nil {
		R.Inconc("cluster: " + err.Error())
		return
	}
	defer cl.Close()
	gate := make(chan struct{})
	var once sync.Once
	open := func() { once.Do(func() { close(gate) }) }
	defer open()
	var entered atomic.Int64
	cl.SetBehaviour(func(c *h.HCall) (*puppet.Rep, error) {
		entered.Add(1)
		select { // hold the connection: no release until the gate opens
		case <-gate:
		case <-c.S.Done():
		}
		return c.Rep(0), nil
	})
	expected := make([]map[uint64]bool, n)
	for i := range expected {
		expected[i] = map[uint64]bool{}
	}
	issue := func(m string, node int, nowait bool, skip map[int]bool) *h.Task {
		tok := h.NewToken()
		req := &puppet.Req{Call: tok, Seq: tok, Kind: 6}
		skipIDs := map[uint32]bool{}
		for i := range skip {
			skipIDs[cl.IDs[i]] = true
		}
		switch m {
		case "Uni", "Uni2":
			expected[node][tok] = true
		default:
			for i := 0; i < n; i++ {
				if m == "MultiPN" && skip[i] {
					continue
				}
				expected[i][tok] = true
			}
		}
		var co []gorums.CallOption
		if nowait {
			co = append(co, gorums.WithNoSendWaiting())
		}
		return h.Go(fmt.Sprintf("oneway:%s nowait=%v", m, nowait), func() {
			ctx := context.Background()
			switch m {
			case "Uni":
				cl.Node(node).Uni(ctx, req, co...)
			case "Uni2":
				cl.Node(node).Uni2(ctx, req, co...)
			case "Multi":
				cl.Cfg.Multi(ctx, req, co...)
			case "MultiPN":
				cl.Cfg.MultiPN(ctx, req, PN(skipIDs), co...)
			}
		})
	}
	// B1: send-waiting calls return while all handlers are gated shut
	k1 := 2 + rng.Intn(4)
	for k := 0; k < k1; k++ {
		m := []string{"Uni", "Uni2", "Multi", "MultiPN"}[rng.Intn(4)]
		skip := map[int]bool{}
		if m == "MultiPN" && n > 1 {
			skip[rng.Intn(n)] = true
		}
		t := issue(m, rng.Intn(n), false, skip)
		hi := h.Await(t, e.W)
		if hi.Verdict == h.Hung {
			R.Violate("oneway-waits-for-handler:"+hi.Sig, fmt.Sprintf("send-waiting %s did not return while the server handlers are blocked: %s", m, hi.Sig), map[string]any{"stack": hi.Stack, "handlers_entered": entered.Load()})
			return
		} else if hi.Verdict == h.Inconclusive {
			R.Inconc("B1 await: " + hi.State)
			return
		}
		R.Count("oneway.sendwaiting_returned_while_handlers_blocked", 1)
	}
	// B2: no-send-waiting calls return while the node's sender is held before the write
	if e.Hooks != nil {
		node := rng.Intn(n)
		id := cl.IDs[node]
		hold := e.Hooks.Hold("snd.beforeWrite", id, 0, e.W+3*time.Second)
		m := []string{"Uni", "Uni2"}[rng.Intn(2)]
		// with a send buffer of b, b+1 calls fit without the sender making progress (one dequeued and held + b queued)
		var ts []*h.Task
		for k := 0; k < int(buf)+1; k++ {
			ts = append(ts, issue(m, node, true, nil))
			if k == 0 {
				select {
				case <-hold.Reached():
				case <-time.After(e.W):
				}
			}
		}
		reached := false
		select {
		case <-hold.Reached():
			reached = true
		default:
		}
		for _, t := range ts {
			hi := h.Await(t, e.W)
			if hi.Verdict == h.Hung && reached {
				R.Violate("nosendwaiting-waits-for-connection:"+hi.Sig, fmt.Sprintf("%s with WithNoSendWaiting did not return while the sender was held before the write: %s", m, hi.Sig), map[string]any{"stack": hi.Stack, "send_buffer": buf})
				e.Hooks.Disarm(hold)
				return
			}
		}
		if reached {
			R.Count("oneway.nosendwaiting_returned_while_sender_held", int64(len(ts)))
		} else {
			R.Count("oneway.sender_hold_not_reached", 1)
		}
		e.Hooks.Disarm(hold)
	}
	// open the gates: exactly-once delivery
	open()
	// B3: send-waiting one-way calls whose context is cancelled right after they returned (defer cancel() pattern),
	// alternating with calls using context.Background(): none of these contexts ended during its call, so all are delivered
	k3 := 40 + rng.Intn(80)
	for k := 0; k < k3; k++ {
		m := []string{"Uni", "Uni2", "Multi"}[k%3]
		tok := h.NewToken()
		req := &puppet.Req{Call: tok, Seq: tok, Kind: 6}
		node := rng.Intn(n)
		if m == "Multi" {
			for i := 0; i < n; i++ {
				expected[i][tok] = true
			}
		} else {
			expected[node][tok] = true
		}
		ctx, cancel := context.WithCancel(context.Background())
		if k%2 == 1 {
			ctx = context.Background()
		}
		t := h.Go("oneway:cancel-after-return", func() {
			switch m {
			case "Uni":
				cl.Node(node).Uni(ctx, req)
			case "Uni2":
				cl.Node(node).Uni2(ctx, req)
			default:
				cl.Cfg.Multi(ctx, req)
			}
		})
		hi := h.Await(t, e.W)
		cancel()
		if hi.Verdict == h.Hung {
			R.Violate("oneway-stalls:"+hi.Sig, "send-waiting one-way call to a reachable node did not return: "+hi.Sig, map[string]any{"stack": hi.Stack, "others": hi.Others})
			return
		}
	}
	R.Count("oneway.cancel_after_return_calls", int64(k3))
	// B4: concurrent senders using context.Background() while other goroutines issue calls whose context has already ended on
	// the same nodes (such a call never touches the stream): every message of the former is delivered exactly once
	optional := map[uint64]bool{}
	{
		ended, cancelEnded := context.WithCancel(context.Background())
		cancelEnded()
		const G, K = 4, 40
		toks := make([][]uint64, G)
		for g := range toks {
			for k := 0; k < K; k++ {
				tok := h.NewToken()
				toks[g] = append(toks[g], tok)
				if (g+k)%4 < 2 {
					expected[g%n][tok] = true
				} else {
					for i := 0; i < n; i++ {
						expected[i][tok] = true
					}
				}
			}
		}
		var itoks []uint64
		for k := 0; k < 600; k++ {
			tok := h.NewToken()
			itoks = append(itoks, tok)
			optional[tok] = true
		}
		stop := make(chan struct{})
		var intruders []*h.Task
		for x := 0; x < 2; x++ {
			x := x
			intruders = append(intruders, h.Go("oneway:ended-context intruder", func() {
				for k := x; k < len(itoks); k += 2 {
					select {
					case <-stop:
						return
					default:
					}
					req := &puppet.Req{Call: itoks[k], Seq: itoks[k], Kind: 6}
					switch k % 5 {
					case 0:
						cl.Node(k%n).Uni(ended, req)
					case 1:
						cl.Cfg.Multi(ended, req, gorums.WithNoSendWaiting())
					case 2:
						cl.Node(k%n).RPC(ended, req)
					case 3:
						cl.Cfg.Multi(ended, req)
					default:
						cl.Node(k%n).Uni(ended, req, gorums.WithNoSendWaiting())
					}
				}
			}))
		}
		var senders []*h.Task
		for g := 0; g < G; g++ {
			g := g
			senders = append(senders, h.Go("oneway:background sender", func() {
				for k, tok := range toks[g] {
					req := &puppet.Req{Call: tok, Seq: tok, Kind: 6}
					switch (g + k) % 4 {
					case 0:
						cl.Node(g%n).Uni(context.Background(), req)
					case 1:
						cl.Node(g%n).Uni(context.Background(), req, gorums.WithNoSendWaiting())
					case 2:
						cl.Cfg.Multi(context.Background(), req)
					default:
						cl.Cfg.Multi(context.Background(), req, gorums.WithNoSendWaiting())
					}
				}
			}))
		}
		for _, t := range senders {
			if hi := h.Await(t, e.W); hi.Verdict == h.Hung {
				close(stop)
				R.Violate("oneway-stalls:"+hi.Sig, "one-way calls to reachable nodes (context.Background) did not return while calls with ended contexts were issued on the same nodes: "+hi.Sig, map[string]any{"stack": hi.Stack, "others": hi.Others})
				return
			}
		}
		close(stop)
		for _, t := range intruders {
			if hi := h.Await(t, e.W); hi.Verdict == h.Hung {
				R.Violate("oneway-stalls:"+hi.Sig, "a call with an ended context did not return: "+hi.Sig, map[string]any{"stack": hi.Stack})
				return
			}
		}
		R.Count("oneway.messages_sent_alongside_ended_context_calls", G*K)
	}
	deadline := time.Now().Add(e.W)
	check := func() (missing, dup int) {
		for i, s := range cl.Srvs {
			cnt := map[uint64]int{}
			for _, en := range s.Log() {
				cnt[en.Call]++
			}
			for tok := range expected[i] {
				if cnt[tok] == 0 {
					missing++
				}
			}
			for tok, c := range cnt {
				if c > 1 || (!expected[i][tok] && !optional[tok]) {
					dup++
				}
			}
		}
		return
	}
	for {
		mi, _ := check()
		if mi == 0 || time.Now().After(deadline) {
			break
		}
		time.Sleep(2 * time.Millisecond)
	}
	mi, du := check()
	if mi > 0 {
		R.Violate("oneway-not-delivered", fmt.Sprintf("%d one-way messages to reachable nodes were never delivered", mi), map[string]any{"n": n, "send_buffer": buf})
	}
	if du > 0 {
		R.Violate("oneway-delivered-twice-or-untargeted", fmt.Sprintf("%d one-way deliveries were duplicates or went to untargeted nodes", du), map[string]any{"n": n})
	}
	R.Eval(fmt.Sprintf("B|%d|%d|%d", n, buf, idx), true)
	R.Sample(map[string]any{"part": "B", "n": n, "send_buffer": buf, "handlers_entered": entered.Load()})
}
