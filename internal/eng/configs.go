package eng

import (
	"fmt"
	"hash/fnv"
	"math/rand"
	"net"
	"sort"
	"strings"
	"sync"
	"sync/atomic"
	"time"

	"verif/internal/gen/puppet"
	"verif/internal/h"

	"github.com/anishathalye/porcupine"
	"github.com/relab/gorums"
)

func fnvID(addr string) uint32 {
	f := fnv.New32a()
	f.Write([]byte(addr))
	return f.Sum32()
}

// canonAddr is the address a spelling stands for (what net.ResolveTCPAddr makes of it, which is what a node reports).
func canonAddr(a string) string {
	t, err := net.ResolveTCPAddr("tcp", a)
	if err != nil {
		return a
	}
	return t.String()
}

// findCollisions searches loopback ip:port strings for FNV-1a collisions.
func findCollisions(max int) [][2]string {
	seen := make(map[uint32]string, 1<<20)
	var out [][2]string
	for x := 1; x <= 16 && len(out) < max; x++ {
		for p := 1; p <= 65535; p++ {
			a := fmt.Sprintf("127.0.0.%d:%d", x, p)
			id := fnvID(a)
			if b, ok := seen[id]; ok && b != a {
				out = append(out, [2]string{b, a})
				if len(out) >= max {
					break
				}
			} else {
				seen[id] = a
			}
		}
	}
	return out
}

type mcfg struct {
	c   *puppet.Configuration
	ids []uint32 // model: sorted distinct ids
	ptr []*gorums.RawNode
}

func sortedIDs(m map[uint32]bool) []uint32 {
	var s []uint32
	for id := range m {
		s = append(s, id)
	}
	sort.Slice(s, func(i, j int) bool { return s[i] < s[j] })
	return s
}

// RunConfigs is the engine behind C14.
func RunConfigs(e *Env) {
	R := e.R
	R.Rule = "model-based random programs (5-40 steps) of WithNodeList / WithNodeMap / WithNodeIDs / And / Except / WithNewNodes / WithoutNodes on one manager, over address pools with duplicates, overlaps, ids already registered under another address, " +
		"and FNV-1a id collisions found at run time by hashing ~1M loopback ip:port strings (plus the pair quoted in the property); oracle = set model: strictly increasing ids, NodeIDs/Nodes/Size/Equal agree, contents = union / difference / named set, unknown ids and empty results are errors, " +
		"operands unchanged (ids and pointers), one node object per id in all configurations and the manager, Address() = address created for, distinct addresses never share a node (two nodes or an error); live sub-check: overlapping configurations on running servers open exactly one stream per server; " +
		"distinct = program; non-trivial = >= 5 steps"
	R.Assume("after a failed creation the set of nodes added to the pool is not specified; the model re-reads the pool and only requires that every pooled node carries an (address, id) pair that was asked for")
	coll := findCollisions(60)
	coll = append(coll, [2]string{"127.0.0.1:2469", "127.0.0.1:2678"}) // kept even if it does not collide: harmless then
	R.Count("fnv_collision_pairs_found", int64(len(coll)-1))
	if len(coll) > 1 {
		R.Note(fmt.Sprintf("example FNV-1a collision found at run time: %s / %s -> id %d", coll[0][0], coll[0][1], fnvID(coll[0][0])))
	}
	rng := e.Rand(14)
	nprog := e.Pick(3000, 300000)
	if e.Of > 1 {
		nprog /= e.Of
	}
	for i := 0; i < nprog; i++ {
		if R.NumViolations() > 8 {
			break
		}
		runConfigProgram(e, i, rand.New(rand.NewSource(rng.Int63())), coll)
	}
	if e.Batch == 0 {
		runLiveOverlap(e)
	}
	runConcurrentCreation(e)
	runLinearizable(e)
}

// linModel is the sequential model of the manager's node pool for porcupine. The pool is a set of ids, i.e. a product of
// independent per-id booleans: creating a configuration adds each of its ids at some instant within the call (the property does
// not require the creation to be atomic as a whole), reading the pool (NodeIDs) reports for each id whether it is in the pool.
// The history is therefore partitioned by id (P-compositionality): per id, add -> true; read must return the current value.
type linIn struct {
	Create bool
	ID     uint32
}

var linModel = porcupine.Model{
	Partition: func(history []porcupine.Operation) [][]porcupine.Operation {
		by := map[uint32][]porcupine.Operation{}
		for _, o := range history {
			id := o.Input.(linIn).ID
			by[id] = append(by[id], o)
		}
		var out [][]porcupine.Operation
		for _, ops := range by {
			out = append(out, ops)
		}
		return out
	},
	Init: func() any { return false },
	Step: func(state, in, out any) (bool, any) {
		if in.(linIn).Create {
			return true, true
		}
		return out.(bool) == state.(bool), state
	},
	DescribeOperation: func(in, out any) string {
		i := in.(linIn)
		if i.Create {
			return fmt.Sprintf("add(%d)", i.ID)
		}
		return fmt.Sprintf("contains(%d) -> %v", i.ID, out)
	},
}

// runLinearizable: concurrent creation of configurations and reads of the manager's pool, recorded at the API boundary
// (call and return stamps from one monotonic clock) and checked for linearizability against the set model with porcupine.
func runLinearizable(e *Env) {
	R := e.R
	rng := e.Rand(143)
	rounds := e.Pick(300, 20000)
	if e.Of > 1 {
		rounds /= e.Of
	}
	t0 := time.Now()
	illegal, unknown := 0, 0
	for it := 0; it < rounds && R.NumViolations() < 8; it++ {
		mgr := puppet.NewManager(gorums.WithNoConnect())
		qs := &h.QSpec{}
		base := 9300 + rng.Intn(40)
		const G = 6
		var mu sync.Mutex
		var ops []porcupine.Operation
		lists := make([][]string, G)
		for g := 0; g < G; g++ {
			for k := 0; k < 1+rng.Intn(2); k++ {
				lists[g] = append(lists[g], fmt.Sprintf("127.0.0.1:%d", base+rng.Intn(4)))
			}
		}
		var start atomic.Bool
		var wg sync.WaitGroup
		for g := 0; g < G; g++ {
			wg.Add(1)
			go func(g int) {
				defer wg.Done()
				for !start.Load() {
				}
				universe := []uint32{fnvID(fmt.Sprintf("127.0.0.1:%d", base)), fnvID(fmt.Sprintf("127.0.0.1:%d", base+1)), fnvID(fmt.Sprintf("127.0.0.1:%d", base+2)), fnvID(fmt.Sprintf("127.0.0.1:%d", base+3))}
				read := func() {
					c := time.Since(t0).Nanoseconds()
					ids := mgr.NodeIDs()
					r := time.Since(t0).Nanoseconds()
					in := map[uint32]bool{}
					for _, id := range ids {
						in[id] = true
					}
					mu.Lock()
					for _, id := range universe {
						ops = append(ops, porcupine.Operation{ClientId: g, Input: linIn{ID: id}, Call: c, Output: in[id], Return: r})
					}
					mu.Unlock()
				}
				want := map[uint32]bool{}
				for _, a := range lists[g] {
					want[fnvID(a)] = true
				}
				if g%3 == 2 {
					read()
				}
				c := time.Since(t0).Nanoseconds()
				_, err := mgr.NewConfiguration(gorums.WithNodeList(lists[g]), qs)
				r := time.Since(t0).Nanoseconds()
				if err == nil {
					mu.Lock()
					for id := range want {
						ops = append(ops, porcupine.Operation{ClientId: g, Input: linIn{Create: true, ID: id}, Call: c, Output: true, Return: r})
					}
					mu.Unlock()
				}
				read()
			}(g)
		}
		start.Store(true)
		wg.Wait()
		res, info := porcupine.CheckOperationsVerbose(linModel, ops, 20*time.Second)
		switch res {
		case porcupine.Illegal:
			illegal++
			var desc []string
			for _, o := range ops {
				desc = append(desc, fmt.Sprintf("client %d [%d,%d] %s", o.ClientId, o.Call, o.Return, linModel.DescribeOperation(o.Input, o.Output)))
			}
			_ = info
			R.Violate("pool-not-linearizable", "concurrent configuration creation and NodeIDs() reads are not linearizable with respect to the per-id set model of the node pool (an id was seen and later not seen, or not seen after its creation had returned)", map[string]any{"history": desc, "lists": lists})
		case porcupine.Unknown:
			unknown++
			R.Inconc("porcupine timed out")
		}
		R.Eval(fmt.Sprintf("lin|%v", lists), true)
		if it == 0 {
			var desc []string
			for _, o := range ops {
				desc = append(desc, fmt.Sprintf("client %d [%d,%d] %s", o.ClientId, o.Call, o.Return, linModel.DescribeOperation(o.Input, o.Output)))
			}
			R.Sample(map[string]any{"kind": "linearizability history (porcupine)", "operations": desc, "verdict": "linearizable"})
		}
	}
	R.Count("porcupine_histories_checked", int64(rounds))
	R.Count("porcupine_illegal", int64(illegal))
}

// runConcurrentCreation: configurations created concurrently over overlapping addresses share the manager's pooled nodes.
func runConcurrentCreation(e *Env) {
	R := e.R
	rng := e.Rand(142)
	iters := e.Pick(5000, 100000)
	if e.Of > 1 {
		iters /= e.Of
	}
	for it := 0; it < iters && R.NumViolations() < 8; it++ {
		mgr := puppet.NewManager(gorums.WithNoConnect())
		qs := &h.QSpec{}
		base := 9200 + rng.Intn(50)
		const G = 8
		cfgs := make([]*puppet.Configuration, G)
		errs := make([]error, G)
		lists := make([][]string, G)
		for g := 0; g < G; g++ {
			for k := 0; k < 1+rng.Intn(2); k++ {
				lists[g] = append(lists[g], fmt.Sprintf("127.0.0.1:%d", base+rng.Intn(2)))
			}
		}
		var start atomic.Bool
		done := make(chan struct{}, G)
		for g := 0; g < G; g++ {
			go func(g int) {
				for !start.Load() { // spin barrier: all goroutines enter creation at the same instant
				}
				if g%2 == 0 {
					cfgs[g], errs[g] = mgr.NewConfiguration(gorums.WithNodeList(lists[g]), qs)
				} else {
					m := map[string]uint32{}
					for _, a := range lists[g] {
						m[a] = fnvID(a)
					}
					cfgs[g], errs[g] = mgr.NewConfiguration(gorums.WithNodeMap(m), qs)
				}
				done <- struct{}{}
			}(g)
		}
		time.Sleep(20 * time.Microsecond)
		start.Store(true)
		for g := 0; g < G; g++ {
			<-done
		}
		pooled := map[uint32]*gorums.RawNode{}
		for _, n := range mgr.Nodes() {
			if _, dup := pooled[n.ID()]; dup {
				R.Violate("concurrent-creation-duplicate-id", fmt.Sprintf("after concurrent creation the manager pools two nodes with id %d (lists %v)", n.ID(), lists), nil)
			}
			pooled[n.ID()] = n.RawNode
		}
		for g := 0; g < G; g++ {
			if errs[g] != nil {
				R.Violate("concurrent-creation-fails", fmt.Sprintf("creating configurations concurrently over overlapping addresses failed: %v (lists %v)", errs[g], lists), nil)
				continue
			}
			want := map[uint32]bool{}
			for _, a := range lists[g] {
				want[fnvID(a)] = true
			}
			if fmt.Sprint(cfgs[g].NodeIDs()) != fmt.Sprint(sortedIDs(want)) {
				R.Violate("concurrent-creation-contents", fmt.Sprintf("configuration %d has ids %v, want %v", g, cfgs[g].NodeIDs(), sortedIDs(want)), nil)
			}
			for _, n := range cfgs[g].Nodes() {
				if pooled[n.ID()] != n.RawNode {
					R.Violate("concurrent-creation-private-node", fmt.Sprintf("configuration %d holds a node object for id %d (%s) that is not the manager's pooled node: configurations do not share one node object per id", g, n.ID(), n.Address()), map[string]any{"lists": lists})
					break
				}
			}
		}
		if len(pooled) != mgr.Size() {
			R.Violate("manager-size", fmt.Sprintf("Size()=%d, distinct ids %d", mgr.Size(), len(pooled)), nil)
		}
		R.Eval(fmt.Sprintf("concurrent|%v", lists), true)
	}
	R.Count("concurrent_creation_rounds", int64(iters))
}

func runConfigProgram(e *Env, idx int, rng *rand.Rand, coll [][2]string) {
	R := e.R
	mgr := puppet.NewManager(gorums.WithNoConnect())
	qs := &h.QSpec{}
	// address pool for this program
	var pool []string
	aliases, zoned := 0, 0
	defer func() {
		R.Count("alias_spellings_in_address_pools", int64(aliases))
		R.Count("address_pools_with_scoped_ipv6_addresses", int64(zoned))
	}()
	for i := 0; i < 6+rng.Intn(8); i++ {
		pool = append(pool, fmt.Sprintf("127.0.0.%d:%d", 1+rng.Intn(3), 9000+rng.Intn(40)))
	}
	if rng.Intn(3) == 0 && len(coll) > 0 {
		p := coll[rng.Intn(len(coll))]
		pool = append(pool, p[0], p[1])
	}
	if rng.Intn(4) == 0 {
		// scoped IPv6 addresses: the zone is part of the address
		port := 9000 + rng.Intn(40)
		pool = append(pool, fmt.Sprintf("[fe80::1%%eth0]:%d", port), fmt.Sprintf("[fe80::1%%eth1]:%d", port), fmt.Sprintf("[fe80::2%%eth0]:%d", port))
		zoned++
	}
	if rng.Intn(3) == 0 {
		// other spellings of pool addresses (resolved without any name service): the same address, hence the same node
		plain := len(pool)
		for k := 0; k < 2; k++ {
			a := pool[rng.Intn(plain)]
			if strings.HasPrefix(a, "[") {
				continue // (IPv6 literals are left as they are)
			}
			host, port, _ := net.SplitHostPort(a)
			if rng.Intn(2) == 0 {
				pool = append(pool, host+":0"+port)
			} else {
				pool = append(pool, "[::ffff:"+host+"]:"+port)
			}
			aliases++
		}
	}
	reg := map[uint32]string{}           // model registry: id -> address
	ptrs := map[uint32]*gorums.RawNode{} // first pointer seen per id
	var cfgs []*mcfg
	var trace []string
	det := func(extra string) map[string]any {
		return map[string]any{"program": trace, "note": extra}
	}
	fail := func(sig, what string) {
		R.Violate(sig, what, det(""))
	}
	// resync model registry with the manager (after failed creations) and check pooled nodes
	checkPool := func(asked map[uint32]map[string]bool) bool {
		nodes := mgr.Nodes()
		if len(nodes) != mgr.Size() {
			fail("manager-size", fmt.Sprintf("mgr.Size()=%d but mgr.Nodes() has %d", mgr.Size(), len(nodes)))
			return false
		}
		seen := map[uint32]bool{}
		for _, n := range nodes {
			id := n.ID()
			if seen[id] {
				fail("manager-duplicate-id", fmt.Sprintf("manager pools two nodes with id %d", id))
				return false
			}
			seen[id] = true
			if a, ok := reg[id]; ok {
				if n.Address() != a {
					fail("address-changed", fmt.Sprintf("node %d was created for %s but now reports %s", id, a, n.Address()))
					return false
				}
			} else {
				if asked == nil || !asked[id][n.Address()] {
					fail("pooled-node-not-asked-for", fmt.Sprintf("manager pooled node %d at %s which no operation asked for", id, n.Address()))
					return false
				}
				reg[id] = n.Address()
			}
			if p, ok := ptrs[id]; ok && p != n.RawNode {
				fail("node-object-duplicated", fmt.Sprintf("id %d is represented by two different node objects", id))
				return false
			}
			ptrs[id] = n.RawNode
		}
		for id := range reg {
			if !seen[id] {
				fail("node-vanished", fmt.Sprintf("node %d disappeared from the manager", id))
				return false
			}
		}
		return true
	}
	checkCfg := func(c *puppet.Configuration, want []uint32, what string) bool {
		ids := c.NodeIDs()
		nodes := c.Nodes()
		if len(ids) != c.Size() || len(nodes) != c.Size() {
			fail("size-disagrees", fmt.Sprintf("%s: Size=%d NodeIDs=%d Nodes=%d", what, c.Size(), len(ids), len(nodes)))
			return false
		}
		for i := range ids {
			if i > 0 && ids[i] <= ids[i-1] {
				fail("not-a-sorted-set", fmt.Sprintf("%s: NodeIDs %v are not strictly increasing (a node is listed twice or out of order)", what, ids))
				return false
			}
			if nodes[i].ID() != ids[i] {
				fail("nodes-ids-disagree", fmt.Sprintf("%s: Nodes()[%d].ID()=%d, NodeIDs()[%d]=%d", what, i, nodes[i].ID(), i, ids[i]))
				return false
			}
			if p, ok := ptrs[ids[i]]; ok && p != nodes[i].RawNode {
				fail("node-object-duplicated", fmt.Sprintf("%s: id %d is represented by a different node object than in the manager", what, ids[i]))
				return false
			}
			if a, ok := reg[ids[i]]; ok && nodes[i].Address() != a {
				fail("address-changed", fmt.Sprintf("%s: node %d reports %s, created for %s", what, ids[i], nodes[i].Address(), a))
				return false
			}
		}
		if fmt.Sprint(ids) != fmt.Sprint(want) {
			fail("wrong-contents", fmt.Sprintf("%s: got ids %v, the set model says %v", what, ids, want))
			return false
		}
		if !c.Equal(c.RawConfiguration) {
			fail("not-equal-to-itself", what)
			return false
		}
		return true
	}
	snapshot := func() [][]uint32 {
		var s [][]uint32
		for _, m := range cfgs {
			s = append(s, m.c.NodeIDs())
		}
		return s
	}
	operandsUnchanged := func(before [][]uint32) bool {
		for i, m := range cfgs {
			if i >= len(before) {
				break
			}
			if fmt.Sprint(m.c.NodeIDs()) != fmt.Sprint(before[i]) || fmt.Sprint(m.c.NodeIDs()) != fmt.Sprint(m.ids) {
				fail("operand-modified", fmt.Sprintf("configuration #%d changed from %v to %v", i, before[i], m.c.NodeIDs()))
				return false
			}
			for j, n := range m.c.Nodes() {
				if n.RawNode != m.ptr[j] {
					fail("operand-modified", fmt.Sprintf("configuration #%d: node object at position %d was replaced", i, j))
					return false
				}
			}
		}
		return true
	}
	addCfg := func(c *puppet.Configuration, ids []uint32) {
		m := &mcfg{c: c, ids: ids}
		for _, n := range c.Nodes() {
			m.ptr = append(m.ptr, n.RawNode)
		}
		cfgs = append(cfgs, m)
	}
	steps := 5 + rng.Intn(36)
	for s := 0; s < steps; s++ {
		before := snapshot()
		op := rng.Intn(7)
		if len(cfgs) == 0 && op >= 2 {
			op = rng.Intn(2)
		}
		switch op {
		case 0: // WithNodeList
			k := 1 + rng.Intn(5)
			var addrs []string
			for i := 0; i < k; i++ {
				addrs = append(addrs, pool[rng.Intn(len(pool))])
			}
			trace = append(trace, fmt.Sprintf("WithNodeList(%v)", addrs))
			want := map[uint32]bool{}
			asked := map[uint32]map[string]bool{}
			byID := map[uint32]string{}
			collide := false
			for _, a := range addrs {
				a = canonAddr(a)
				id := fnvID(a)
				if asked[id] == nil {
					asked[id] = map[string]bool{}
				}
				asked[id][a] = true
				if b, ok := byID[id]; ok && b != a {
					collide = true
				}
				if b, ok := reg[id]; ok && b != a {
					collide = true
				}
				byID[id] = a
				want[id] = true
			}
			c, err := mgr.NewConfiguration(gorums.WithNodeList(addrs), qs)
			if collide {
				if err == nil {
					fail("distinct-addresses-share-a-node", fmt.Sprintf("WithNodeList(%v): two distinct addresses have the same generated id; creation neither failed nor produced one node per address (got ids %v)", addrs, c.NodeIDs()))
					return
				}
				if !checkPool(asked) {
					return
				}
			} else {
				if err != nil {
					fail("creation-failed", fmt.Sprintf("WithNodeList(%v) failed: %v", addrs, err))
					return
				}
				if !checkPool(asked) || !checkCfg(c, sortedIDs(want), trace[len(trace)-1]) {
					return
				}
				addCfg(c, sortedIDs(want))
			}
		case 1: // WithNodeMap
			k := 1 + rng.Intn(4)
			m := map[string]uint32{}
			for i := 0; i < k; i++ {
				a := pool[rng.Intn(len(pool))]
				var id uint32
				switch rng.Intn(3) {
				case 0:
					id = uint32(1 + rng.Intn(6))
				case 1:
					id = fnvID(canonAddr(a))
				default: // an id that is already registered (possibly under another address)
					ids := sortedIDs(func() map[uint32]bool {
						x := map[uint32]bool{}
						for id := range reg {
							x[id] = true
						}
						return x
					}())
					if len(ids) > 0 {
						id = ids[rng.Intn(len(ids))]
					} else {
						id = uint32(1 + rng.Intn(6))
					}
				}
				m[a] = id
			}
			trace = append(trace, fmt.Sprintf("WithNodeMap(%v)", m))
			want := map[uint32]bool{}
			asked := map[uint32]map[string]bool{}
			byID := map[uint32]string{}
			conflict := false
			for a, id := range m {
				a = canonAddr(a)
				if asked[id] == nil {
					asked[id] = map[string]bool{}
				}
				asked[id][a] = true
				if b, ok := byID[id]; ok && b != a {
					conflict = true
				}
				if b, ok := reg[id]; ok && b != a {
					conflict = true
				}
				byID[id] = a
				want[id] = true
			}
			c, err := mgr.NewConfiguration(gorums.WithNodeMap(m), qs)
			if conflict {
				if err == nil {
					fail("distinct-addresses-share-a-node", fmt.Sprintf("WithNodeMap(%v): an id is used for two distinct addresses (or is registered under another address); creation neither failed nor produced one node per address (got ids %v)", m, c.NodeIDs()))
					return
				}
				if !checkPool(asked) {
					return
				}
			} else {
				if err != nil {
					fail("creation-failed", fmt.Sprintf("WithNodeMap(%v) failed: %v", m, err))
					return
				}
				if !checkPool(asked) || !checkCfg(c, sortedIDs(want), trace[len(trace)-1]) {
					return
				}
				addCfg(c, sortedIDs(want))
			}
		case 2: // WithNodeIDs
			k := 1 + rng.Intn(4)
			if rng.Intn(4) == 0 {
				k = 5 + rng.Intn(8) // long lists: ids repeat three times and more
			}
			var ids []uint32
			all := sortedIDs(func() map[uint32]bool {
				x := map[uint32]bool{}
				for id := range reg {
					x[id] = true
				}
				return x
			}())
			unknown := false
			want := map[uint32]bool{}
			for i := 0; i < k; i++ {
				if rng.Intn(8) == 0 || len(all) == 0 {
					id := uint32(900000 + rng.Intn(10))
					ids = append(ids, id)
					unknown = true
				} else {
					id := all[rng.Intn(len(all))]
					ids = append(ids, id)
					want[id] = true
				}
			}
			trace = append(trace, fmt.Sprintf("WithNodeIDs(%v)", ids))
			c, err := mgr.NewConfiguration(gorums.WithNodeIDs(ids), qs)
			if unknown {
				if err == nil {
					fail("unknown-id-accepted", fmt.Sprintf("WithNodeIDs(%v) with an unregistered id did not fail", ids))
					return
				}
			} else {
				if err != nil {
					fail("creation-failed", fmt.Sprintf("WithNodeIDs(%v) failed: %v", ids, err))
					return
				}
				if !checkCfg(c, sortedIDs(want), trace[len(trace)-1]) {
					return
				}
				addCfg(c, sortedIDs(want))
			}
			if !checkPool(nil) {
				return
			}
		case 3, 4: // And / Except
			a, b := cfgs[rng.Intn(len(cfgs))], cfgs[rng.Intn(len(cfgs))]
			want := map[uint32]bool{}
			for _, id := range a.ids {
				want[id] = true
			}
			var opt gorums.NodeListOption
			name := "And"
			if op == 3 {
				for _, id := range b.ids {
					want[id] = true
				}
				opt = a.c.And(b.c)
			} else {
				name = "Except"
				for _, id := range b.ids {
					delete(want, id)
				}
				opt = a.c.Except(b.c)
			}
			trace = append(trace, fmt.Sprintf("%s(%v, %v)", name, a.ids, b.ids))
			c, err := mgr.NewConfiguration(opt, qs)
			if len(want) == 0 {
				if err == nil {
					fail("empty-configuration-accepted", fmt.Sprintf("%s produced an empty configuration without an error", trace[len(trace)-1]))
					return
				}
			} else {
				if err != nil {
					fail("creation-failed", fmt.Sprintf("%s failed: %v", trace[len(trace)-1], err))
					return
				}
				if !checkCfg(c, sortedIDs(want), trace[len(trace)-1]) {
					return
				}
				addCfg(c, sortedIDs(want))
			}
		case 5: // WithNewNodes
			a := cfgs[rng.Intn(len(cfgs))]
			k := 1 + rng.Intn(3)
			var addrs []string
			for i := 0; i < k; i++ {
				addrs = append(addrs, pool[rng.Intn(len(pool))])
			}
			trace = append(trace, fmt.Sprintf("WithNewNodes(%v, WithNodeList(%v))", a.ids, addrs))
			want := map[uint32]bool{}
			for _, id := range a.ids {
				want[id] = true
			}
			asked := map[uint32]map[string]bool{}
			byID := map[uint32]string{}
			collide := false
			for _, ad := range addrs {
				ad = canonAddr(ad)
				id := fnvID(ad)
				if asked[id] == nil {
					asked[id] = map[string]bool{}
				}
				asked[id][ad] = true
				if b, ok := byID[id]; ok && b != ad {
					collide = true
				}
				if b, ok := reg[id]; ok && b != ad {
					collide = true
				}
				byID[id] = ad
				want[id] = true
			}
			c, err := mgr.NewConfiguration(a.c.WithNewNodes(gorums.WithNodeList(addrs)), qs)
			if collide {
				if err == nil {
					fail("distinct-addresses-share-a-node", fmt.Sprintf("%s: colliding addresses accepted (got ids %v)", trace[len(trace)-1], c.NodeIDs()))
					return
				}
				if !checkPool(asked) {
					return
				}
			} else {
				if err != nil {
					fail("creation-failed", fmt.Sprintf("%s failed: %v", trace[len(trace)-1], err))
					return
				}
				if !checkPool(asked) || !checkCfg(c, sortedIDs(want), trace[len(trace)-1]) {
					return
				}
				addCfg(c, sortedIDs(want))
			}
		case 6: // WithoutNodes
			a := cfgs[rng.Intn(len(cfgs))]
			var rm []uint32
			for _, id := range a.ids {
				if rng.Intn(3) == 0 {
					rm = append(rm, id)
				}
			}
			if rng.Intn(4) == 0 {
				rm = append(rm, 424242) // not a member: ignored
			}
			if rng.Intn(10) == 0 {
				rm = append([]uint32(nil), a.ids...)
			}
			want := map[uint32]bool{}
			for _, id := range a.ids {
				want[id] = true
			}
			for _, id := range rm {
				delete(want, id)
			}
			trace = append(trace, fmt.Sprintf("WithoutNodes(%v, %v)", a.ids, rm))
			c, err := mgr.NewConfiguration(a.c.WithoutNodes(rm...), qs)
			if len(want) == 0 {
				if err == nil {
					fail("empty-configuration-accepted", fmt.Sprintf("%s produced an empty configuration without an error", trace[len(trace)-1]))
					return
				}
			} else {
				if err != nil {
					fail("creation-failed", fmt.Sprintf("%s failed: %v", trace[len(trace)-1], err))
					return
				}
				if !checkCfg(c, sortedIDs(want), trace[len(trace)-1]) {
					return
				}
				addCfg(c, sortedIDs(want))
			}
		}
		if !operandsUnchanged(before) {
			return
		}
		R.Seen("operations", strings.SplitN(trace[len(trace)-1], "(", 2)[0])
	}
	R.Eval(strings.Join(trace, ";"), steps >= 5)
	R.Count("steps", int64(steps))
	R.Count("configurations_checked", int64(len(cfgs)))
	if idx < 2 {
		R.Sample(map[string]any{"program": trace, "pooled_nodes": len(reg)})
	}
}

// runLiveOverlap: overlapping configurations on running servers open exactly one stream per server.
func runLiveOverlap(e *Env) {
	R := e.R
	cl, err := h.NewCluster(h.Options{N: 5, Block: true, DialTimeout: 2 * time.Second})
	if err != nil {
		R.Inconc("live cluster: " + err.Error())
		return
	}
	defer cl.Close()
	rng := e.Rand(141)
	for i := 0; i < 12; i++ {
		k := 1 + rng.Intn(5)
		if _, err := cl.SubConfig(rng.Perm(5)[:k], nil); err != nil {
			R.Violate("live-subconfig-failed", err.Error(), nil)
			return
		}
		// creating a configuration from addresses that are already pooled must reuse the nodes
		var addrs []string
		for _, j := range rng.Perm(5)[:k] {
			addrs = append(addrs, cl.Addrs[j])
		}
		m := map[string]uint32{}
		for _, j := range rng.Perm(5)[:k] {
			m[cl.Addrs[j]] = cl.IDs[j]
		}
		if _, err := cl.Mgr.NewConfiguration(gorums.WithNodeMap(m), cl.QS); err != nil {
			R.Violate("live-nodemap-failed", err.Error(), nil)
			return
		}
	}
	time.Sleep(50 * time.Millisecond)
	for i, s := range cl.Srvs {
		if n := len(s.Conns()); n != 1 {
			R.Violate("connection-per-configuration", fmt.Sprintf("server %d saw %d streams from one manager with 25 overlapping configurations (want exactly 1)", i, n), nil)
			return
		}
	}
	if cl.Mgr.Size() != 5 {
		R.Violate("manager-size", fmt.Sprintf("manager pools %d nodes for 5 servers", cl.Mgr.Size()), nil)
	}
	R.Eval("live-overlap", true)
	R.Count("live_streams_checked", 5)
}
