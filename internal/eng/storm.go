package eng

import (
	"context"
	"errors"
	"fmt"
	"sort"
	"sync"
	"sync/atomic"
	"time"

	"verif/internal/gen/puppet"
	"verif/internal/h"

	"github.com/relab/gorums"
	"google.golang.org/grpc"
)

// RunStorm is a workload shared by the C02 and C07 engines: quorum calls (sync, async, correctable) that need every node run
// from several goroutines while other goroutines keep breaking the nodes' streams from the sender side (one-way messages that
// exceed the send limit: the write fails and the stream is aborted) at the very moments replies arrive. Each call is judged by
// itself, from what its quorum function was shown and from the error it returned:
//   - C02: Incomplete only when every targeted node has answered - the nodes seen replying plus the nodes named in the error
//     cover the configuration - and errors + replies = number of targeted nodes;
//   - C07: every failing node is named exactly once and never after (or before) its reply was shown to the quorum function.
func RunStorm(e *Env, prop string) {
	R := e.R
	for rep := 0; rep < e.Pick(4, 60); rep++ {
		if e.Of > 1 && rep%e.Of != e.Batch {
			continue
		}
		if R.NumViolations() > 6 {
			return
		}
		stormCase(e, prop, rep)
	}
}

func stormCase(e *Env, prop string, rep int) {
	R := e.R
	n := 2 + rep%3
	cl, err := h.NewCluster(h.Options{N: n, Block: true, DialTimeout: 2 * time.Second, SendBuffer: uint(rep%2) * 8,
		ExtraMgr: []gorums.ManagerOption{gorums.WithGrpcDialOptions(grpc.WithDefaultCallOptions(grpc.MaxCallSendMsgSize(16 << 10)))}})
	if err != nil {
		R.Inconc("cluster: " + err.Error())
		return
	}
	defer cl.Close()
	cl.SetBehaviour(func(c *h.HCall) (*puppet.Rep, error) {
		c.Ctx.Release()
		return c.Rep(0), nil
	})
	viol := func(p, sig, what string, det any) {
		if p == prop {
			R.Violate("storm:"+sig, what, det)
		} else {
			R.Count("foreign."+p+".storm:"+sig, 1)
		}
	}
	stop := make(chan struct{})
	var breaks atomic.Int64
	var dwg sync.WaitGroup
	for d := 0; d < 1; d++ {
		dwg.Add(1)
		go func(d int) {
			defer dwg.Done()
			big := make([]byte, 64<<10)
			for k := d; ; k += 1 {
				select {
				case <-stop:
					return
				default:
				}
				tok := h.NewToken()
				ctx, cancel := context.WithTimeout(context.Background(), 2*time.Second)
				cl.Node(k%n).Uni(ctx, &puppet.Req{Call: tok, Seq: tok, Kind: 2, Pad: big})
				cancel()
				breaks.Add(1)
				time.Sleep(time.Duration(100+(k*371)%500) * time.Microsecond)
			}
		}(d)
	}
	var calls, incomplete, succeeded, timedOut atomic.Int64
	var cwg sync.WaitGroup
	const G = 8
	K := e.Pick(1200, 5000)
	for g := 0; g < G; g++ {
		cwg.Add(1)
		go func(g int) {
			defer cwg.Done()
			for k := 0; k < K; k++ {
				if R.NumViolations() > 6 {
					return
				}
				tok := h.NewToken()
				req := &puppet.Req{Call: tok, Seq: tok, Kind: 2}
				var mu sync.Mutex
				seen := map[uint32]bool{}
				mon := &h.CallMon{Token: tok, Orig: req, Decide: func(inv *h.Inv) (bool, int) {
					mu.Lock()
					for _, id := range inv.Keys {
						seen[id] = true
					}
					mu.Unlock()
					return len(inv.Keys) >= n, len(inv.Keys)
				}}
				cl.QS.Register(mon)
				ctx, cancel := context.WithTimeout(context.Background(), 5*time.Second)
				m := []string{"QC", "Async", "Corr"}[(g+k)%3]
				var cerr error
				switch m {
				case "QC":
					cerr = CallQC(cl.Cfg, "QC", ctx, req, nil).Err
				case "Async":
					cerr = StartAsync(cl.Cfg, "Async", ctx, req, nil).Get().Err
				default:
					co := StartCorr(cl.Cfg, "Corr", ctx, req, nil)
					<-co.Done()
					_, _, cerr = co.Raw()
				}
				live := ctx.Err() == nil
				cancel()
				cl.QS.Unregister(tok)
				calls.Add(1)
				if cerr == nil {
					succeeded.Add(1)
					continue
				}
				if !live || !errors.Is(cerr, gorums.Incomplete) {
					timedOut.Add(1) // (ended by its 5 s deadline: not this workload's subject)
					continue
				}
				incomplete.Add(1)
				pe, ok := parseQCErr(cerr.Error())
				if !ok {
					continue
				}
				mu.Lock()
				var replied, failed []uint32
				shown := map[uint32]bool{}
				for id := range seen {
					replied = append(replied, id)
					shown[id] = true
				}
				mu.Unlock()
				covered := map[uint32]bool{}
				for _, id := range replied {
					covered[id] = true
				}
				for id := range pe.Nodes {
					failed = append(failed, id)
					covered[id] = true
				}
				sort.Slice(replied, func(a, b int) bool { return replied[a] < replied[b] })
				sort.Slice(failed, func(a, b int) bool { return failed[a] < failed[b] })
				det := map[string]any{"method": m, "n": n, "nodes": cl.IDs, "shown_to_quorum_function": replied, "named_in_error": failed, "error": cerr.Error(), "stream_breaks_so_far": breaks.Load()}
				for id, lines := range pe.Nodes {
					if len(lines) > 1 {
						viol("C07", "failing-node-reported-twice", fmt.Sprintf("%s: node %d contributes %d errors to one call: %v", m, id, len(lines), lines), det)
					}
					if shown[id] {
						viol("C07", "node-both-replied-and-failed", fmt.Sprintf("%s: node %d is named in the error although its reply was shown to the quorum function", m, id), det)
					}
				}
				if pe.Errors+pe.Replies != n {
					viol("C02", "errors-plus-replies", fmt.Sprintf("%s: Incomplete with errors %d + replies %d != %d targeted nodes", m, pe.Errors, pe.Replies, n), det)
				}
				if len(covered) < n {
					viol("C02", "incomplete-early", fmt.Sprintf("%s: Incomplete although only %d of %d targeted nodes have answered (replied %v, failed %v) and the context is live", m, len(covered), n, replied, failed), det)
				}
			}
		}(g)
	}
	done := make(chan struct{})
	go func() { cwg.Wait(); close(done) }()
	select {
	case <-done:
	case <-time.After(e.PickD(90*time.Second, 4*time.Minute)):
		R.Inconc("storm did not finish (foreign: progress)")
	}
	close(stop)
	dwg.Wait()
	R.Eval(fmt.Sprintf("storm|n=%d|buffer=%d|%d", n, rep%2*8, rep), true)
	R.Count("storm.calls", calls.Load())
	R.Count("storm.calls_succeeded", succeeded.Load())
	R.Count("storm.calls_incomplete(judged)", incomplete.Load())
	R.Count("storm.calls_ended_by_deadline(not judged)", timedOut.Load())
	R.Count("storm.streams_broken_from_the_sender_side", breaks.Load())
}
