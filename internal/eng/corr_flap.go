package eng

import (
	"context"
	"errors"
	"fmt"
	"time"

	"verif/internal/gen/puppet"
	"verif/internal/h"

	"github.com/relab/gorums"
	"google.golang.org/grpc/backoff"
)

// runCorrFlap: a streaming correctable call is outstanding on n nodes whose handlers have each streamed one reply and stay
// on; one node's server then crashes and comes back several times (its connection fails more than once during the one call)
// while the other nodes stay healthy. "Completes ... when every node has ... failed" (C11): as long as a healthy node can still
// stream, the call must not complete - in particular not with Incomplete - however often the flapping node failed; and when
// the context finally ends, the error names the flapping node exactly once (C07: "each failing node contributes exactly one
// error"). Shared by C11 and C07 (each judges its own clause).
func runCorrFlap(e *Env, prop string) {
	R := e.R
	variants := []string{"CorrStream", "CorrStreamCustom", "CorrStreamPN", "CorrStreamCombo"}
	idx := 0
	for rep := 0; rep < e.Pick(1, 12); rep++ {
		for _, v := range variants {
			for _, n := range []int{2, 3, 4} {
				idx++
				if e.Of > 1 && idx%e.Of != e.Batch {
					continue
				}
				if R.NumViolations() > 8 {
					return
				}
				corrFlapCase(e, prop, v, n, n+1+rep%2)
			}
		}
	}
}

func corrFlapCase(e *Env, prop, variant string, n, flaps int) {
	R := e.R
	bo := backoff.Config{BaseDelay: 20 * time.Millisecond, Multiplier: 1.6, Jitter: 0.2, MaxDelay: 100 * time.Millisecond}
	cl, err := h.NewCluster(h.Options{N: n, Block: true, DialTimeout: 2 * time.Second, Backoff: &bo})
	if err != nil {
		R.Inconc("cluster: " + err.Error())
		return
	}
	defer cl.Close()
	release := make(chan struct{})
	defer close(release)
	cl.SetBehaviour(func(c *h.HCall) (*puppet.Rep, error) {
		if c.Send == nil {
			return c.Rep(0), nil // probes (RPC)
		}
		c.Ctx.Release()
		if c.Send(c.Rep(0)) != nil {
			return nil, h.ErrSilent
		}
		select { // the stream stays open: the node may send more at any time
		case <-release:
		case <-c.S.Done():
		}
		return nil, h.ErrSilent
	})
	tok := h.NewToken()
	req := &puppet.Req{Call: tok, Seq: tok, Kind: 12}
	cl.QS.Register(&h.CallMon{Token: tok, Orig: req, Decide: func(inv *h.Inv) (bool, int) { return false, len(inv.Keys) }})
	defer cl.QS.Unregister(tok)
	ctx := newManualCtx()
	defer ctx.end(context.Canceled)
	var corr Corr
	t0 := h.Go("corr-start", func() { corr = StartCorr(cl.Cfg, variant, ctx, req, PN(nil)) })
	if hi := h.Await(t0, e.W); hi.Verdict != h.Returned {
		R.Inconc("starting correctable call did not return: " + hi.Sig)
		return
	}
	never := corr.Watch(1 << 30) // released by completion only
	// every node has streamed its first reply: level n
	select {
	case <-corr.Watch(n):
	case <-time.After(e.W):
		R.Inconc(fmt.Sprintf("%s n=%d: level %d not reached within %v", variant, n, n, e.W))
		return
	}
	det := func() map[string]any {
		_, lvl, cerr := corr.Raw()
		return map[string]any{"variant": variant, "n": n, "flapping_node": cl.IDs[0], "healthy_nodes": cl.IDs[1:], "times_the_flapping_node_failed": flaps, "level": lvl, "err": errText(cerr)}
	}
	probe := func(i int) error {
		var perr error
		for a := 0; a < 60; a++ {
			pctx, cancel := context.WithTimeout(context.Background(), 250*time.Millisecond)
			pt := h.NewToken()
			_, perr = cl.Node(i).RPC(pctx, &puppet.Req{Call: pt, Seq: pt, Kind: 13})
			cancel()
			if perr == nil {
				return nil
			}
			time.Sleep(5 * time.Millisecond)
		}
		return perr
	}
	for f := 0; f < flaps; f++ {
		cl.Srvs[0].Stop()
		// the client notices: a probe to the node fails (or the stream error has been seen)
		time.Sleep(15 * time.Millisecond)
		if err := cl.Srvs[0].Restart(); err != nil {
			R.Inconc("restart: " + err.Error())
			return
		}
		if err := probe(0); err != nil {
			R.Inconc("flapping node did not come back: " + err.Error())
			return
		}
		R.Count("flaps_under_an_outstanding_stream_call", 1)
		if closed(never) {
			// completed although n-1 nodes are healthy, connected and still have their handlers running
			for i := 1; i < n; i++ {
				if err := probe(i); err != nil {
					R.Inconc(fmt.Sprintf("healthy node %d does not answer a probe: %v", cl.IDs[i], err))
					return
				}
			}
			if prop == "C11" {
				_, _, cerr := corr.Raw()
				R.Violate("stream-call-completed-while-nodes-can-still-answer", fmt.Sprintf("%s on %d nodes completed (%s) after node %d had failed %d time(s), although the other %d node(s) are up, connected and still serving the call's stream", variant, n, errText(cerr), cl.IDs[0], f+1, n-1), det())
			}
			if prop == "C07" {
				_, _, cerr := corr.Raw()
				if pe, ok := parseQCErr(errText(cerr)); ok && (pe.Errors > 1 || len(pe.Nodes[cl.IDs[0]]) > 1) {
					R.Violate("flapping-node-reported-more-than-once", fmt.Sprintf("%s on %d nodes: node %d, the only failing node, contributes %d errors (%d lines naming it): %s", variant, n, cl.IDs[0], pe.Errors, len(pe.Nodes[cl.IDs[0]]), errText(cerr)), det())
				}
			}
			R.Eval(fmt.Sprintf("flap|%s|%d|%d|completed-early", variant, n, flaps), true)
			return
		}
	}
	// end of the call: the context ends; the flapping node is named once
	ctx.end(context.Canceled)
	select {
	case <-never:
	case <-time.After(e.W):
		R.Inconc(fmt.Sprintf("%s: the call did not complete within %v of its context's end", variant, e.W))
		return
	}
	_, lvl, cerr := corr.Raw()
	pe, ok := parseQCErr(errText(cerr))
	switch {
	case cerr == nil || !ok:
		if prop == "C11" {
			R.Violate("final-error-kind", fmt.Sprintf("%s ended by its context: unexpected final error %q", variant, errText(cerr)), det())
		}
	case prop == "C11" && !errors.Is(cerr, context.Canceled):
		R.Violate("final-error-kind", fmt.Sprintf("%s ended by its context while %d node(s) could still answer: final error %q is not the context's", variant, n-1, errText(cerr)), det())
	case prop == "C11" && lvl != n:
		R.Violate("final-level", fmt.Sprintf("final level %d, highest level reported %d", lvl, n), det())
	case prop == "C07" && (pe.Errors > 1 || len(pe.Nodes[cl.IDs[0]]) > 1):
		R.Violate("flapping-node-reported-more-than-once", fmt.Sprintf("%s on %d nodes: node %d, the only failing node, failed %d times during the call and contributes %d errors (%d lines naming it): %s", variant, n, cl.IDs[0], flaps, pe.Errors, len(pe.Nodes[cl.IDs[0]]), errText(cerr)), det())
	}
	if prop == "C07" {
		for id, lines := range pe.Nodes {
			if id != cl.IDs[0] {
				R.Violate("healthy-node-reported-as-failed", fmt.Sprintf("node %d never failed but is named in the error: %v", id, lines), det())
			}
		}
	}
	R.Eval(fmt.Sprintf("flap|%s|%d|%d", variant, n, flaps), true)
	R.Count("stream_calls_outliving_a_flapping_node", 1)
	_ = gorums.LevelNotSet
}
