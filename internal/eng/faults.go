package eng

import (
	"context"
	"errors"
	"fmt"
	"math/rand"
	"sort"
	"strings"
	"sync"
	"sync/atomic"
	"time"

	"verif/internal/gen/puppet"
	"verif/internal/h"

	"github.com/relab/gorums"
	"google.golang.org/grpc/codes"
)

// Failure kinds of the C07 grid.
var failKinds = []string{"never-started", "stopped-before", "stopped-during", "reset-before", "reset-during", "reset-while-queued", "refuse", "handler-error", "stopped-after-reply"}

// FCase is one point of the C07 grid.
type FCase struct {
	N       int      `json:"n"`
	Variant string   `json:"variant"`
	Fail    []string `json:"fail"` // per node: "" (healthy) or a failure kind
	Never   bool     `json:"never_quorum"`
	Block   bool     `json:"blocking_dial"`
	Calls   int      `json:"consecutive_calls"`
	codes   []codes.Code
}

func (c FCase) failing() []int {
	var f []int
	for i, k := range c.Fail {
		if k != "" && k != "stopped-after-reply" {
			f = append(f, i)
		}
	}
	return f
}

var endedCtx = func() context.Context {
	ctx, cancel := context.WithCancel(context.Background())
	cancel()
	return ctx
}()

// RunFaults is the engine behind C07.
func RunFaults(e *Env) {
	R := e.R
	R.Rule = "fault grid: n in 3..5 x failing subset F (all subsets for n=3, seeded sample above) x failure kind per failing node (never started, stopped before the call, stopped while its handler is gated, connection reset before / during / while the request is still queued (sender held at a hook), " +
		"connections refused, handler error with every status code, stopped after its reply left) x variant (QC, Async, Corr) x blocking/non-blocking dial x {threshold = healthy count, never-quorum}; " +
		"oracle: success iff the healthy replies satisfy the quorum function; Incomplete lists exactly one error line per failing node and none for healthy ones, errors = |F|, replies = n - |F|, handler failures carry the scripted code and message, " +
		"connection failures an unavailable-type error; no quorum-function invocation contains a failing node; calls complete (hang rule); storms (8 goroutines of calls needing every node while another goroutine keeps breaking the nodes' streams from the sender side): every failing node named once, never together with its reply; in half of the cases 4 calls with an already-ended context are issued on each healthy node while the call awaits that node's reply; distinct = grid point"
	R.Assume("unavailable-type = gRPC code Unavailable (incl. gorums' 'stream is down'), Canceled/EOF from a torn transport; the observed texts are listed in the evidence")
	rng := e.Rand(7)
	var cases []FCase
	variants := []string{"QC", "Async", "Corr"}
	add := func(n int, mask int, rng *rand.Rand) {
		c := FCase{N: n, Variant: variants[rng.Intn(3)], Fail: make([]string, n), Never: rng.Intn(2) == 0, Block: rng.Intn(2) == 0, Calls: 1 + rng.Intn(2), codes: make([]codes.Code, n)}
		for i := 0; i < n; i++ {
			if mask&(1<<i) != 0 {
				c.Fail[i] = failKinds[rng.Intn(len(failKinds))]
				c.codes[i] = codes.Code(1 + rng.Intn(16))
			}
		}
		cases = append(cases, c)
	}
	reps := e.Pick(12, 300)
	for r := 0; r < reps; r++ {
		for mask := 0; mask < 8; mask++ {
			add(3, mask, rng)
		}
	}
	for i := 0; i < e.Pick(250, 20000); i++ {
		n := 4 + rng.Intn(2)
		add(n, rng.Intn(1<<n), rng)
	}
	// every failure kind alone and in pairs at n=3 (deterministic part of the grid)
	for _, k := range failKinds {
		for _, v := range variants {
			c := FCase{N: 3, Variant: v, Fail: []string{k, "", ""}, Never: true, Block: false, Calls: 2, codes: []codes.Code{codes.PermissionDenied, 0, 0}}
			cases = append(cases, c)
		}
	}
	var wg sync.WaitGroup
	sem := make(chan struct{}, 16)
	for i, c := range cases {
		if e.Of > 1 && i%e.Of != e.Batch {
			continue
		}
		if R.NumViolations() > 12 {
			break
		}
		sem <- struct{}{}
		wg.Add(1)
		go func(i int, c FCase) {
			defer wg.Done()
			defer func() { <-sem }()
			runFaultCase(e, i, c)
		}(i, c)
	}
	wg.Wait()
	RunStorm(e, "C07")
	runCorrFlap(e, "C07")
	for rep := 0; rep < e.Pick(18, 300); rep++ {
		if e.Of > 1 && rep%e.Of != e.Batch {
			continue
		}
		if R.NumViolations() > 8 {
			break
		}
		runCancelledAfterWrite(e, rep)
	}
}

func unavailableType(line string) bool {
	return strings.Contains(line, "code = Unavailable") || strings.Contains(line, "code = Canceled") || line == "EOF" || strings.Contains(line, "transport") ||
		strings.Contains(line, "connection") || strings.Contains(line, "stream is down")
}

func runFaultCase(e *Env, idx int, c FCase) {
	R := e.R
	var down []int
	needProxy := false
	for i, k := range c.Fail {
		if k == "never-started" {
			down = append(down, i)
		}
		if strings.HasPrefix(k, "reset") || k == "refuse" {
			needProxy = true
		}
	}
	cl, err := h.NewCluster(h.Options{N: c.N, Block: c.Block, DialTimeout: time.Second, Proxies: needProxy, Down: down})
	if err != nil {
		R.Inconc("cluster: " + err.Error())
		return
	}
	defer cl.Close()
	dir := NewDirector()
	cl.SetBehaviour(dir.Behaviour)
	for i, k := range c.Fail {
		switch k {
		case "refuse":
			cl.Proxies[i].SetMode(h.Refuse)
			cl.Proxies[i].Reset()
		}
	}
	F := c.failing()
	inF := map[int]bool{}
	for _, i := range F {
		inF[i] = true
	}
	healthy := c.N - len(F)
	det := func(extra string, out Outcome, invs []*h.Inv) map[string]any {
		m := map[string]any{"case": c, "error": errText(out.Err), "invocations": invs, "note": extra}
		if e.Hooks != nil {
			ev := map[string][]string{}
			for i, id := range cl.IDs {
				ev[fmt.Sprintf("node %d (index %d) lastErr=%v", id, i, cl.Node(i).LastErr())] = e.Hooks.MsgEvents(id)
			}
			m["per_message_events(diagnosis)"] = ev
		}
		return m
	}
	var watcherLeft atomic.Bool
	for call := 0; call < c.Calls; call++ {
		tok := h.NewToken()
		req := &puppet.Req{Call: tok, Seq: tok, Kind: 7}
		plans := make([]*Plan, c.N)
		for i := 0; i < c.N; i++ {
			p := &Plan{Act: ActReply}
			if c.Fail[i] == "handler-error" {
				p.Act, p.Code, p.Msg = ActError, c.codes[i], fmt.Sprintf("scripted failure %d ☃", i)
			}
			plans[i] = dir.Set(tok, cl.IDs[i], p)
		}
		th := healthy
		mon := &h.CallMon{Token: tok, Orig: req, Decide: func(inv *h.Inv) (bool, int) { return !c.Never && th > 0 && len(inv.Keys) >= th, len(inv.Keys) }}
		cl.QS.Register(mon)
		// faults that strike before the call
		var holds []*h.Held
		if call == 0 {
			for i, k := range c.Fail {
				switch k {
				case "stopped-before":
					cl.Srvs[i].Stop()
				case "reset-before":
					cl.Proxies[i].Reset()
				case "reset-while-queued":
					if e.Hooks != nil {
						holds = append(holds, e.Hooks.Hold("snd.dequeued", cl.IDs[i], 0, 5*time.Second))
					}
				}
			}
			time.Sleep(5 * time.Millisecond)
		}
		var out Outcome
		// (the context is only cancelled when the case is over: a context that ends right after a call returned can, in a
		// nanosecond window, still make gorums reset the node's stream, which is not this grid's subject)
		ctx, cancel := context.WithTimeout(context.Background(), 30*time.Second)
		defer cancel()
		t := h.Go("c07:"+c.Variant, func() {
			switch c.Variant {
			case "QC":
				out = CallQC(cl.Cfg, "QC", ctx, req, nil)
			case "Async":
				out = StartAsync(cl.Cfg, "Async", ctx, req, nil).Get()
			default:
				co := StartCorr(cl.Cfg, "Corr", ctx, req, nil)
				top := co.Watch(c.N + 1) // a level no reply set reaches: only the call's completion releases it
				<-co.Done()
				co.Raw() // (synchronise with the completing publication)
				select {
				case <-top:
				default:
					watcherLeft.Store(true)
				}
				v, lvl, err := co.Raw()
				out = Outcome{Err: err, Level: lvl}
				if r, ok := v.(*puppet.Rep); ok && err == nil {
					out.Rep = r
				}
			}
		})
		// strike during the call
		if call == 0 {
			hi := 0
			for i, k := range c.Fail {
				switch k {
				case "reset-while-queued":
					if e.Hooks != nil && hi < len(holds) {
						hd := holds[hi]
						hi++
						select {
						case <-hd.Reached():
							before := e.Hooks.Count("rcv.err", cl.IDs[i])
							cl.Proxies[i].Reset()
							e.Hooks.WaitCount("rcv.err", cl.IDs[i], before+1, 2*time.Second)
							time.Sleep(10 * time.Millisecond) // let the receiver re-create the stream
							R.Count("strike.reset_while_queued_reached", 1)
						case <-time.After(2 * time.Second):
						}
						e.Hooks.Disarm(hd)
					}
				case "stopped-during", "reset-during":
					select {
					case <-plans[i].Entered():
						if k == "stopped-during" {
							cl.Srvs[i].Stop()
						} else {
							cl.Proxies[i].Reset()
						}
						R.Count("strike.during_handler", 1)
					case <-time.After(3 * time.Second):
					}
				}
			}
		}
		// release the healthy nodes (and handler errors) one by one
		for i := 0; i < c.N; i++ {
			k := c.Fail[i]
			if k == "" || k == "handler-error" || k == "stopped-after-reply" || k == "reset-while-queued" || k == "reset-before" || call > 0 {
				w := 3 * time.Second
				if k != "" {
					w = 300 * time.Millisecond
				}
				entered := false
				select {
				case <-plans[i].Entered():
					entered = true
				case <-time.After(w):
				}
				if entered && k == "" && (idx+call)%2 == 0 {
					// impatient callers: while this call awaits the healthy node's reply (its handler is parked at the gate), other
					// calls whose context has already ended are issued on the same node; they never touch the stream
					for x := 0; x < 4; x++ {
						ntok := h.NewToken()
						cl.Node(i).RPC(endedCtx, &puppet.Req{Call: ntok, Seq: ntok, Kind: 7})
					}
					R.Count("noise.ended_context_calls_on_a_healthy_node_while_the_call_awaits_its_reply", 4)
				}
				plans[i].Open()
			}
		}
		if call == 0 {
			for i, k := range c.Fail {
				if k == "stopped-after-reply" {
					// wait until the quorum function has seen the reply (or the call ended), then stop the server
					dl := time.Now().Add(2 * time.Second)
					for time.Now().Before(dl) {
						seen := false
						for _, inv := range mon.Invs() {
							if _, ok := inv.Reps[cl.IDs[i]]; ok {
								seen = true
							}
						}
						if seen {
							break
						}
						select {
						case <-t.Done:
							dl = time.Now()
						case <-time.After(time.Millisecond):
						}
					}
					cl.Srvs[i].Stop()
				}
			}
		}
		hi := h.Await(t, e.W+4*time.Second)
		for _, p := range plans {
			p.Open()
		}
		if watcherLeft.Load() {
			R.Violate("watcher-left-waiting", fmt.Sprintf("Corr with failing nodes %v (%v) completed, but a goroutine waiting on Watch for a level the failure made unreachable is left waiting", F, c.Fail), map[string]any{"case": c})
			return
		}
		invs := mon.Invs()
		if hi.Verdict == h.Hung {
			R.Violate("left-waiting:"+hi.Sig, fmt.Sprintf("%s with failing nodes %v (%v) did not complete: %s", c.Variant, F, c.Fail, hi.Sig), map[string]any{"case": c, "stack": hi.Stack, "others": hi.Others})
			return
		} else if hi.Verdict == h.Inconclusive {
			R.Inconc("await: " + hi.State)
			return
		}
		// in later calls, nodes that failed by reset are healthy again (the connection is re-created); stopped/never-started/refusing/handler-error stay failing
		failNow := map[int]bool{}
		for _, i := range F {
			k := c.Fail[i]
			if call == 0 || k == "never-started" || k == "stopped-before" || k == "stopped-during" || k == "refuse" || k == "handler-error" {
				failNow[i] = true
			}
		}
		if call > 0 {
			for i, k := range c.Fail {
				if k == "stopped-after-reply" {
					failNow[i] = true
				}
			}
		}
		// (c) the quorum function never saw a failing node
		for _, inv := range invs {
			for id, r := range inv.Reps {
				i := cl.Index(id)
				if i < 0 || failNow[i] && c.Fail[i] != "reset-before" && c.Fail[i] != "reset-while-queued" && !(call > 0 && strings.HasPrefix(c.Fail[i], "reset")) || r.Call != tok || r.Node != id {
					R.Violate("failed-node-in-reply-set", fmt.Sprintf("quorum function was shown an entry for node %d (index %d, failure %q)", id, i, c.Fail[max(i, 0)]), det("", out, invs))
					return
				}
			}
		}
		// a node whose connection was reset before the request was written may legitimately answer (the request goes out on the new
		// connection) or fail; it must not do both. Count the observed outcome per node.
		flexible := map[int]bool{}
		for i, k := range c.Fail {
			if call == 0 && (k == "reset-before" || k == "reset-while-queued") {
				flexible[i] = true
			}
			// in a later call a node whose connection was reset earlier is normally healthy again, but the broken stream may
			// also only be discovered by this call's write (bare EOF): it may answer or fail, never both
			if call > 0 && strings.HasPrefix(k, "reset") {
				flexible[i] = true
				failNow[i] = true
			}
		}
		replied := map[int]bool{}
		for _, inv := range invs {
			for id := range inv.Reps {
				replied[cl.Index(id)] = true
			}
		}
		mustFail := 0
		for i := range failNow {
			if !flexible[i] {
				mustFail++
			}
		}
		expectSuccess := !c.Never && healthy > 0
		if call > 0 {
			// thresholds were fixed from call 0's healthy count; recompute what is reachable now
			reach := 0
			for i := 0; i < c.N; i++ {
				if !failNow[i] {
					reach++
				}
			}
			expectSuccess = !c.Never && th > 0 && reach >= th
		}
		switch {
		case out.Err == nil:
			quorum := false
			for _, inv := range invs {
				quorum = quorum || inv.Quorum
			}
			if !quorum {
				R.Violate("success-without-quorum", "call succeeded although the quorum function reported no quorum", det("", out, invs))
				return
			}
		default:
			if expectSuccess && len(flexible) == 0 {
				R.Violate("minority-failure-not-tolerated", fmt.Sprintf("%s failed although the %d healthy replies satisfy the quorum function: %v", c.Variant, healthy, out.Err), det("", out, invs))
				return
			}
			if !errors.Is(out.Err, gorums.Incomplete) {
				R.Violate("unexpected-error-kind", "call failed with something other than Incomplete: "+out.Err.Error(), det("", out, invs))
				return
			}
			pe, ok := parseQCErr(out.Err.Error())
			if !ok {
				R.Violate("unparsable-error", out.Err.Error(), det("", out, invs))
				return
			}
			for id, lines := range pe.Nodes {
				i := cl.Index(id)
				switch {
				case i >= 0 && !failNow[i] && c.Block && cl.Node(i).LastErr() != nil && strings.Contains(cl.Node(i).LastErr().Error(), "context deadline exceeded"):
					// the blocking dial to a healthy server timed out (machine overloaded): gorums then legitimately reports the node as down
					R.Inconc(fmt.Sprintf("blocking dial to a healthy server timed out under load (node index %d): %v", i, lines))
					return
				case i < 0 || !failNow[i]:
					R.Violate("error-for-healthy-node", fmt.Sprintf("node %d (index %d) did not fail but is reported: %v", id, i, lines), det("", out, invs))
					return
				case len(lines) != 1:
					R.Violate("failing-node-reported-twice", fmt.Sprintf("node %d (index %d, %s) contributed %d errors: %v", id, i, c.Fail[i], len(lines), lines), det("", out, invs))
					return
				case replied[i]:
					R.Violate("node-both-replied-and-failed", fmt.Sprintf("node %d (index %d, %s) contributed both a reply and an error", id, i, c.Fail[i]), det("", out, invs))
					return
				}
				if c.Fail[i] == "handler-error" {
					want := fmt.Sprintf("rpc error: code = %s desc = scripted failure %d ☃", c.codes[i], i)
					if lines[0] != want {
						R.Violate("handler-status-changed", fmt.Sprintf("node %d: got %q want %q", id, lines[0], want), det("", out, invs))
						return
					}
				} else {
					R.Seen("connection_failure_texts", c.Fail[i]+": "+lines[0])
					if !unavailableType(lines[0]) {
						R.Violate("connection-failure-error-type", fmt.Sprintf("node %d (%s): error is not an unavailable-type error: %q", id, c.Fail[i], lines[0]), det("", out, invs))
						return
					}
				}
			}
			// every failing node reported (flexible ones: reported or replied, not both — checked above)
			for i := range failNow {
				_, reported := pe.Nodes[cl.IDs[i]]
				if !reported && !(flexible[i] && replied[i]) {
					R.Violate("failing-node-not-reported", fmt.Sprintf("node index %d (%s) failed but contributes no error", i, c.Fail[i]), det("", out, invs))
					return
				}
			}
			if pe.Errors+pe.Replies != c.N {
				R.Violate("errors-plus-replies", fmt.Sprintf("errors %d + replies %d != %d nodes", pe.Errors, pe.Replies, c.N), det("", out, invs))
				return
			}
		}
		R.Count("calls", 1)
		if out.Err == nil {
			R.Count("outcome.success", 1)
		} else {
			R.Count("outcome.incomplete", 1)
		}
	}
	// recovery: when the only failures were handler errors, one more call on the same connections in which every handler
	// succeeds: a node that failed a call earlier is a healthy node now - its reply is shown to the quorum function and it is
	// not reported ("each failing node ... carrying the handler's status" is about the call the handler failed, not later ones)
	onlyHandlerErrors := false
	for _, k := range c.Fail {
		if k == "handler-error" {
			onlyHandlerErrors = true
		}
	}
	for _, k := range c.Fail {
		onlyHandlerErrors = onlyHandlerErrors && (k == "" || k == "handler-error")
	}
	if onlyHandlerErrors {
		tok := h.NewToken()
		req := &puppet.Req{Call: tok, Seq: tok, Kind: 7}
		for i := 0; i < c.N; i++ {
			dir.Set(tok, cl.IDs[i], &Plan{Act: ActReply}).Open()
		}
		mon := &h.CallMon{Token: tok, Orig: req, Decide: func(inv *h.Inv) (bool, int) { return len(inv.Keys) >= c.N, len(inv.Keys) }}
		cl.QS.Register(mon)
		ctx, cancel := context.WithTimeout(context.Background(), 30*time.Second)
		defer cancel()
		var out Outcome
		t := h.Go("c07:recovery:"+c.Variant, func() {
			switch c.Variant {
			case "QC":
				out = CallQC(cl.Cfg, "QC", ctx, req, nil)
			case "Async":
				out = StartAsync(cl.Cfg, "Async", ctx, req, nil).Get()
			default:
				co := StartCorr(cl.Cfg, "Corr", ctx, req, nil)
				<-co.Done()
				_, lvl, err := co.Raw()
				out = Outcome{Err: err, Level: lvl}
			}
		})
		hi := h.Await(t, e.W+4*time.Second)
		switch {
		case hi.Verdict == h.Hung:
			R.Violate("left-waiting:"+hi.Sig, fmt.Sprintf("%s after handler errors of nodes %v: the next call, which every handler answers, does not complete", c.Variant, F), map[string]any{"case": c, "stack": hi.Stack})
			return
		case hi.Verdict == h.Inconclusive:
			R.Inconc("await: " + hi.State)
			return
		case out.Err != nil:
			R.Violate("earlier-handler-error-sticks-to-the-node", fmt.Sprintf("%s: nodes %v answered an earlier call with a handler error; in the next call every handler succeeds, yet the call fails: %v", c.Variant, F, out.Err), det("recovery call", out, mon.Invs()))
			return
		}
		R.Count("recovery_calls_after_handler_errors", 1)
	}
	ks := append([]string(nil), c.Fail...)
	sort.Strings(ks)
	R.Eval(fmt.Sprintf("%d|%s|%v|%v|%v|%d", c.N, c.Variant, c.Fail, c.Never, c.Block, c.Calls), len(F) > 0)
	for _, k := range c.Fail {
		if k != "" {
			R.Seen("failure_kinds", k)
		}
	}
	R.Sample(map[string]any{"case": c, "failing_nodes": F})
}
