package eng

import (
	"errors"
	"testing"
)

func TestParseQCErr(t *testing.T) {
	s := "quorum call error: incomplete call (errors: 2, replies: 1)\nnode errors:\n\tnode 7: rpc error: code = Unavailable desc = stream is down\n\tnode 9: rpc error: code = NotFound desc = x\n"
	p, ok := parseQCErr(s)
	if !ok || p.Cause != "incomplete call" || p.Errors != 2 || p.Replies != 1 || p.Lines != 2 || len(p.Nodes[7]) != 1 || p.Nodes[9][0] != "rpc error: code = NotFound desc = x" {
		t.Fatalf("%+v %v", p, ok)
	}
	s2 := "quorum call error: context canceled (errors: 0, replies: 3)"
	p, ok = parseQCErr(s2)
	if !ok || p.Errors != 0 || p.Replies != 3 || p.Lines != 0 {
		t.Fatalf("%+v", p)
	}
	if _, ok := parseQCErr("rpc error: code = Canceled desc = context canceled"); ok {
		t.Fatal("non quorum call error parsed")
	}
	// a node listed twice must be visible
	s3 := "quorum call error: incomplete call (errors: 2, replies: 0)\nnode errors:\n\tnode 7: a\n\tnode 7: b\n"
	p, _ = parseQCErr(s3)
	if len(p.Nodes[7]) != 2 {
		t.Fatalf("duplicate lines: %+v", p)
	}
}

const raceLog = `==================
WARNING: DATA RACE
Read at 0x00c0003c2150 by goroutine 10:
  github.com/relab/gorums.(*channel).sendMsg.func2()
      /repo/channel.go:201 +0x10f

Previous write at 0x00c0003c2150 by goroutine 11:
  github.com/relab/gorums.(*channel).reconnect()
      /repo/channel.go:315 +0x3a4
  github.com/relab/gorums.(*channel).receiver()
      /repo/channel.go:260 +0x41

Goroutine 10 (running) created at:
  github.com/relab/gorums.(*channel).sendMsg()
      /repo/channel.go:190 +0x1
==================
==================
WARNING: DATA RACE
Write at 0x00c0003c2150 by goroutine 20:
  verif/internal/eng.RunRaces.func6()
      /verif/internal/eng/races.go:241 +0x3a4

Previous read at 0x00c0003c2150 by goroutine 21:
  verif/internal/eng.RunRaces.func6()
      /verif/internal/eng/races.go:245 +0x3a4
==================
==================
WARNING: DATA RACE
Write at 0x00c0003c2150 by goroutine 30:
  github.com/relab/gorums.(*MultiSorter).Swap()
      /repo/node.go:221 +0x10f
  github.com/relab/gorums.nodeList.newConfig()
      /repo/config_opts.go:86 +0x705

Previous read at 0x00c0003c2150 by goroutine 31:
  verif/internal/eng.RunRaces.func6()
      /verif/internal/eng/races.go:241 +0x3a4
==================
`

func TestParseRaces(t *testing.T) {
	rs := ParseRaces(raceLog)
	if len(rs) != 3 {
		t.Fatalf("%d reports", len(rs))
	}
	if !rs[0].InLib || rs[0].InTest || rs[0].Sig != "(*channel).reconnect / (*channel).sendMsg.func2" {
		t.Fatalf("library race: %+v", rs[0])
	}
	if rs[1].InLib || !rs[1].InTest {
		t.Fatalf("harness-only race must be a harness bug: %+v", rs[1])
	}
	if !rs[2].InLib || rs[2].InTest {
		t.Fatalf("library write vs harness read of API-returned memory is the library's race: %+v", rs[2])
	}
}

func TestErrShape(t *testing.T) {
	if errShape("rpc error: code = Canceled desc = context canceled") != "status Canceled" {
		t.Fatal("errShape")
	}
	if errClass(errors.New("rpc error: code = Unavailable desc = stream is down")) != "stream is down" {
		t.Fatal("errClass")
	}
}
