package eng

import (
	"context"
	"fmt"
	"sync/atomic"
	"time"

	"verif/internal/gen/puppet"
	"verif/internal/h"

	"github.com/relab/gorums"
)

// runClientLeavesWhileHeld: a handler holds its connection (it has neither returned nor released) while further requests of
// the same client have already been written to that connection; then the client goes away (its manager is closed, which
// cancels the stream). As long as that handler holds the connection, no other handler of the connection may start - the
// client leaving changes nothing about "one handler at a time per client connection until Release". The observation is made
// inside the handlers themselves (entries per connection while the holder is held); once the holder has returned, whatever the
// server does with the buffered requests is its own business.
func runClientLeavesWhileHeld(e *Env, rep int) {
	R := e.R
	cl, err := h.NewCluster(h.Options{N: 1, Block: true, DialTimeout: 2 * time.Second})
	if err != nil {
		R.Inconc("cluster: " + err.Error())
		return
	}
	defer cl.Close()
	gate := make(chan struct{})
	var holding, held atomic.Int64 // holding: the holder is inside its handler; held: entries of other handlers on its connection meanwhile
	var holderConn atomic.Uint64
	var entered = make(chan struct{}, 1)
	cl.SetBehaviour(func(c *h.HCall) (*puppet.Rep, error) {
		switch c.Req.GetKind() {
		case 51: // the holder
			holderConn.Store(c.E.Conn)
			holding.Store(1)
			entered <- struct{}{}
			<-gate
			holding.Store(0) // (before the return, hence before the implicit release)
			return c.Rep(0), nil
		case 52:
			if holding.Load() == 1 && c.E.Conn == holderConn.Load() {
				held.Add(1)
			}
		}
		if c.Send != nil {
			c.Send(c.Rep(0))
			return nil, nil
		}
		return c.Rep(0), nil
	})
	qs := &h.QSpec{}
	opts := append(cl.MgrOptions(), gorums.WithSendBufferSize(16))
	ma := puppet.NewManager(opts...)
	cfgA, err := ma.NewConfiguration(gorums.WithNodeMap(cl.NodeMap()), qs)
	if err != nil {
		R.Inconc("client A: " + err.Error())
		return
	}
	closed := false
	defer func() {
		if !closed {
			ma.Close()
		}
	}()
	ctx, cancel := context.WithCancel(context.Background())
	defer cancel()
	tok := h.NewToken()
	hreq := &puppet.Req{Call: tok, Seq: tok, Kind: 51}
	qs.Register(&h.CallMon{Token: tok, Orig: hreq, Decide: func(inv *h.Inv) (bool, int) { return true, 1 }})
	cfgA.Async(ctx, hreq)
	select {
	case <-entered:
	case <-time.After(e.W):
		R.Inconc("the holding handler was not entered")
		close(gate)
		return
	}
	// further requests of the same client, written behind the holder's
	k := 4 + rep%5
	methods := []string{"Multi", "Async", "Uni", "CorrStream", "QC"}
	for i := 0; i < k; i++ {
		t := h.NewToken()
		req := &puppet.Req{Call: t, Seq: t, Kind: 52}
		qs.Register(&h.CallMon{Token: t, Orig: req, Decide: func(inv *h.Inv) (bool, int) { return true, 1 }})
		m := methods[(rep+i)%len(methods)]
		switch m {
		case "Multi":
			cfgA.Multi(ctx, req, gorums.WithNoSendWaiting())
		case "Uni":
			cfgA.Nodes()[0].Uni(ctx, req, gorums.WithNoSendWaiting())
		case "Async":
			cfgA.Async(ctx, req)
		case "CorrStream":
			cfgA.CorrStream(ctx, req)
		case "QC":
			go cfgA.QC(ctx, req)
		}
	}
	if e.Hooks != nil {
		e.Hooks.WaitCount("snd.afterWrite", cl.IDs[0], int64(k+1), 500*time.Millisecond)
	} else {
		time.Sleep(20 * time.Millisecond)
	}
	time.Sleep(2 * time.Millisecond) // the frames have reached the server's transport
	before := held.Load()
	tcl := h.Go("c04:client-leaves", func() { ma.Close() })
	h.Await(tcl, e.W)
	closed = true
	// the holder still holds its connection; give the server time to (wrongly) start the buffered requests
	time.Sleep(time.Duration(40+10*(rep%4)) * time.Millisecond)
	n := held.Load()
	close(gate)
	det := map[string]any{"requests_written_behind_the_holder": k, "handlers_started_on_the_held_connection_before_the_client_left": before, "after": n}
	if n > 0 {
		R.Violate("two-unreleased-handlers", fmt.Sprintf("%d handler(s) of a connection were started while an earlier handler of that connection had neither returned nor released (%d of them only after the client had closed its manager with %d requests buffered behind the holder)", n, n-before, k), det)
	}
	time.Sleep(5 * time.Millisecond)
	// the server is still good for other clients
	t2 := h.NewToken()
	pctx, pcancel := context.WithTimeout(context.Background(), 3*time.Second)
	r, perr := cl.Node(0).RPC(pctx, &puppet.Req{Call: t2, Seq: t2, Kind: 4})
	pcancel()
	if perr != nil || r.GetCall() != t2 {
		R.Violate("other-client-disturbed", fmt.Sprintf("after a client left while its handler held the connection, another client's call fails: %v", perr), det)
	}
	R.Eval(fmt.Sprintf("client-leaves-while-held|k=%d|%d", k, rep), true)
	R.Count("clients_leaving_while_a_handler_holds_their_connection", 1)
	R.Count("requests_buffered_behind_a_held_handler_when_the_client_left", int64(k))
}
