package eng

import (
	"google.golang.org/grpc/codes"
	"google.golang.org/grpc/status"
)

func statusErr(c codes.Code, msg string) error { return status.Error(c, msg) }
