package eng

import (
	"context"
	"errors"
	"fmt"
	"strings"
	"sync"
	"sync/atomic"
	"time"

	"verif/internal/gen/puppet"
	"verif/internal/h"

	"github.com/relab/gorums"
	"google.golang.org/grpc/codes"
	"google.golang.org/grpc/status"
)

// XCase is one point of the C08 grid.
type XCase struct {
	Method    string `json:"method"`
	NoWait    bool   `json:"no_send_waiting,omitempty"`
	N         int    `json:"n"`
	Behaviour string `json:"node_behaviour"`  // never-answers | holds-connection | stalled | refuse | tarpit-reconnect | slow
	Instant   string `json:"ctx_end_instant"` // before-call | while-queued | while-being-written | write-blocked | awaiting-replies
	Traffic   string `json:"traffic"`         // none | stuck-background-call | 8-goroutines
	Deadline  bool   `json:"deadline"`
	Buffer    uint   `json:"send_buffer"`
	CtxKind   string `json:"ctx_kind,omitempty"` // "" = harness-ended context | with-cause = context.WithCancelCause / WithTimeoutCause
	// OthersFail: the handlers of all other nodes fail at once with an application error, so that the call has node errors of
	// its own when the context's end fails the misbehaving node
	OthersFail bool `json:"other_nodes_fail,omitempty"`
}

// endCtx is a context the harness can end.
type endCtx interface {
	context.Context
	end(error)
}

var errShutdown = errors.New("application is shutting down")

// causeCtx is a standard-library context that carries a cancellation cause different from its Err().
type causeCtx struct {
	context.Context
	cancel context.CancelCauseFunc
	stop   context.CancelFunc
	timed  bool
}

func newCauseCtx(timed bool, d time.Duration) *causeCtx {
	if timed {
		ctx, stop := context.WithTimeoutCause(context.Background(), d, errShutdown)
		return &causeCtx{Context: ctx, stop: stop, timed: true}
	}
	ctx, cancel := context.WithCancelCause(context.Background())
	return &causeCtx{Context: ctx, cancel: cancel}
}

func (c *causeCtx) end(error) {
	if c.timed {
		<-c.Done() // the harness lets it expire
		c.stop()
		return
	}
	c.cancel(errShutdown)
}

var (
	xBehaviours = []string{"never-answers", "holds-connection", "stalled", "refuse", "tarpit-reconnect", "slow", "streams-forever"}
	xInstants   = []string{"before-call", "while-queued", "while-being-written", "write-blocked", "awaiting-replies"}
	xTraffic    = []string{"none", "stuck-background-call", "8-goroutines"}
)

// RunCtxEnd is the engine behind C08.
func RunCtxEnd(e *Env) {
	R := e.R
	R.Rule = "grid (seeded sample in quick): call kind (21 methods, one-way with and without send-waiting) x behaviour of the targeted node (handler never answers / holds its connection, proxy stalled = peer not reading, connections refused, reconnect into a tarpit, slow) " +
		"(plus: server streams that never end, feeding a quorum function that costs 0.5 ms per reply) x {other nodes answer normally, other nodes' handlers fail by themselves} x context kind (ended by the harness; context.WithCancelCause / WithTimeoutCause carrying a cause that differs from Err) x concurrent traffic on the same node (none, a background call with context.Background() stuck on it, 8 goroutines, a streaming correctable whose consumer is stalled so that the node's receiver is parked handing it a reply) x instant of the context end placed with hooks (before the call, while queued at enq.registered, while being written at snd.beforeWrite, while a write is blocked by flow control, while awaiting replies) x cancel/deadline; " +
		"oracle: hang rule (W, two goroutine dumps) from the logged instant of the context end; where the call reports an error, errors.Is(err, ctx.Err()) unless the node itself legitimately failed the call; distinct = grid point"
	R.Assume("a node error (e.g. 'stream is down' for a refused connection) that is available when the context ends is a legitimate outcome; only errors that exist because of the context's end must match it")
	rng := e.Rand(8)
	var cases []XCase
	n := e.Pick(1500, 80000)
	for i := 0; i < n; i++ {
		c := XCase{Method: allMethods[rng.Intn(len(allMethods))], N: 1 + rng.Intn(3), Behaviour: xBehaviours[rng.Intn(len(xBehaviours))], Instant: xInstants[rng.Intn(len(xInstants))],
			Traffic: xTraffic[rng.Intn(len(xTraffic))], Deadline: rng.Intn(2) == 0, Buffer: []uint{0, 0, 2}[rng.Intn(3)]}
		if c.Method == "Uni" || c.Method == "Uni2" || c.Method == "Multi" || c.Method == "MultiPN" {
			c.NoWait = rng.Intn(2) == 0
		}
		if rng.Intn(4) == 0 {
			c.CtxKind = "with-cause"
		}
		c.OthersFail = c.N >= 2 && rng.Intn(6) == 0
		cases = append(cases, c)
	}
	// node errors of both origins in one call: the other nodes' handlers fail by themselves, the misbehaving node's request is
	// failed by the context's end (its write is blocked by flow control, or it waits for a busy sender)
	for rep := 0; rep < e.Pick(3, 20); rep++ {
		for _, m := range []string{"QC", "QCPN", "Async", "AsyncCombo", "Corr", "CorrPN"} {
			cases = append(cases, XCase{Method: m, N: 2 + rep%2, Behaviour: "stalled", Instant: "write-blocked", Traffic: "none", Deadline: rep%2 == 0, OthersFail: true})
			cases = append(cases, XCase{Method: m, N: 2 + rep%2, Behaviour: "stalled", Instant: "while-queued", Traffic: "stuck-background-call", Deadline: rep%2 == 1, OthersFail: true})
			cases = append(cases, XCase{Method: m, N: 2, Behaviour: "never-answers", Instant: "while-queued", Traffic: "none", Deadline: rep%2 == 1, OthersFail: true})
			cases = append(cases, XCase{Method: m, N: 2, Behaviour: "slow", Instant: "while-queued", Traffic: "none", Deadline: rep%2 == 0, OthersFail: true})
		}
	}
	// contexts that carry a cancellation cause, for every call class
	for _, m := range []string{"RPC", "QC", "Async", "Corr", "CorrStream", "Uni", "Multi"} {
		for _, dl := range []bool{false, true} {
			cases = append(cases, XCase{Method: m, N: 2, Behaviour: "never-answers", Instant: "awaiting-replies", Traffic: "none", Deadline: dl, CtxKind: "with-cause"})
			cases = append(cases, XCase{Method: m, N: 2, Behaviour: "never-answers", Instant: "before-call", Traffic: "none", Deadline: dl, CtxKind: "with-cause"})
		}
	}
	// servers that stream replies without end, faster than the (costly) quorum function consumes them
	for _, m := range []string{"CorrStream", "CorrStreamPN", "CorrStreamCustom", "CorrStreamCombo"} {
		for _, dl := range []bool{false, true} {
			cases = append(cases, XCase{Method: m, N: 3, Behaviour: "streams-forever", Instant: "awaiting-replies", Traffic: "none", Deadline: dl})
		}
	}
	// the combinations the anchors name, for every call class
	for _, m := range []string{"RPC", "QC", "Async", "Corr", "CorrStream", "Uni", "Multi"} {
		for _, in := range xInstants {
			cases = append(cases, XCase{Method: m, N: 2, Behaviour: "never-answers", Instant: in, Traffic: "stuck-background-call", Deadline: true})
			cases = append(cases, XCase{Method: m, N: 2, Behaviour: "stalled", Instant: in, Traffic: "none"})
		}
		cases = append(cases, XCase{Method: m, N: 2, Behaviour: "tarpit-reconnect", Instant: "awaiting-replies", Traffic: "none", Deadline: true})
	}
	// a finished streaming correctable that is still enqueueing to a jammed peer, on the same (healthy) node as the call under test
	for rep := 0; rep < e.Pick(4, 30); rep++ {
		for _, m := range []string{"RPC", "Uni", "QC", "Async"} {
			cases = append(cases, XCase{Method: m, N: 2, Behaviour: "slow", Instant: []string{"awaiting-replies", "before-call"}[rep%2], Traffic: "finished-stream-call-enqueueing-to-jammed-peer", Deadline: rep%2 == 0})
		}
	}
	var mu sync.Mutex
	hangs := map[string]int{}    // signature -> count
	for rep := 0; rep < e.Pick(2, 20); rep++ {
		for _, m := range []string{"RPC", "QC", "Async", "Corr", "QCCombo"} {
			cases = append(cases, XCase{Method: m, N: 2, Behaviour: "never-answers", Instant: "awaiting-replies", Traffic: "stream-call-with-stalled-consumer", Deadline: rep%2 == 0})
		}
	}
	skipKey := map[string]bool{} // (behaviour|instant|traffic|class) that already produced a confirmed hang twice
	var wg sync.WaitGroup
	sem := make(chan struct{}, 12)
	for i, c := range cases {
		if e.Of > 1 && i%e.Of != e.Batch {
			continue
		}
		key := c.Behaviour + "|" + c.Instant + "|" + c.Traffic + "|" + callClass(c.Method) + fmt.Sprint(c.NoWait)
		mu.Lock()
		skip := skipKey[key]
		mu.Unlock()
		if skip {
			R.Count("skipped_after_hang", 1)
			continue
		}
		sem <- struct{}{}
		wg.Add(1)
		go func(i int, c XCase) {
			defer wg.Done()
			defer func() { <-sem }()
			sig := runCtxEndCase(e, i, c)
			if sig != "" {
				mu.Lock()
				hangs[sig]++
				skipKey[key] = true
				mu.Unlock()
			}
		}(i, c)
	}
	wg.Wait()
}

func callClass(m string) string {
	switch {
	case m == "RPC":
		return "rpc"
	case strings.HasPrefix(m, "Uni"):
		return "unicast"
	case strings.HasPrefix(m, "Multi"):
		return "multicast"
	case strings.HasPrefix(m, "QC"):
		return "quorumcall"
	case strings.HasPrefix(m, "Async"):
		return "async"
	case strings.HasPrefix(m, "CorrStream"):
		return "correctable-stream"
	}
	return "correctable"
}

func runCtxEndCase(e *Env, idx int, c XCase) (hangSig string) {
	R := e.R
	jam := c.Traffic == "finished-stream-call-enqueueing-to-jammed-peer"
	needProxy := c.Behaviour == "stalled" || c.Behaviour == "refuse" || c.Behaviour == "tarpit-reconnect" || jam
	cl, err := h.NewCluster(h.Options{N: c.N, Block: true, DialTimeout: 500 * time.Millisecond, Proxies: needProxy, SendBuffer: c.Buffer})
	if err != nil {
		R.Inconc("cluster: " + err.Error())
		return ""
	}
	defer func() {
		for _, p := range cl.Proxies {
			p.SetMode(h.Pass)
		}
		cl.Close()
	}()
	release := make(chan struct{})
	var ronce sync.Once
	open := func() { ronce.Do(func() { close(release) }) }
	defer open()
	var entered, streamed, bgStreamed atomic.Int64
	var underTest atomic.Uint64 // token of the call under test
	bad := 0                    // index of the misbehaving node
	if c.OthersFail {
		bad = c.N - 1 // contacted last: the other nodes have failed by the time the call gets to it
	}
	cl.SetBehaviour(func(hc *h.HCall) (*puppet.Rep, error) {
		entered.Add(1)
		if hc.Req.GetKind() == 9 && hc.Send != nil {
			// the background stream call of traffic kind "stream-call-with-stalled-consumer"
			for i := 0; ; i++ {
				select {
				case <-release:
					return nil, nil
				case <-hc.S.Done():
					return nil, nil
				default:
				}
				if hc.Send(hc.Rep(uint32(i))) != nil {
					return nil, nil
				}
				bgStreamed.Add(1)
			}
		}
		if c.Behaviour == "streams-forever" {
			if hc.Send == nil {
				hc.Ctx.Release()
				select {
				case <-release:
				case <-hc.S.Done():
				}
				return hc.Rep(0), nil
			}
			for i := 0; ; i++ {
				select {
				case <-release:
					return nil, nil
				case <-hc.S.Done():
					return nil, nil
				default:
				}
				if hc.Send(hc.Rep(uint32(i))) != nil {
					return nil, nil
				}
				streamed.Add(1)
				if i%16 == 15 {
					time.Sleep(200 * time.Microsecond)
				}
			}
		}
		if c.OthersFail && hc.S.Index != bad && hc.Req.GetCall() == underTest.Load() {
			return nil, status.Error(codes.FailedPrecondition, "scripted application error")
		}
		if hc.S.Index == bad || c.Behaviour == "never-answers" || c.Behaviour == "holds-connection" {
			switch c.Behaviour {
			case "never-answers":
				hc.Ctx.Release()
				select {
				case <-release:
				case <-hc.S.Done():
				}
			case "holds-connection":
				select {
				case <-release:
				case <-hc.S.Done():
				}
			case "slow":
				time.Sleep(30 * time.Millisecond)
			}
		}
		if hc.Send != nil {
			k := 1
			if jam {
				k = 300
			}
			for i := 0; i < k; i++ {
				if hc.Send(hc.Rep(uint32(i))) != nil {
					break
				}
			}
			return nil, nil
		}
		return hc.Rep(0), nil
	})
	id := cl.IDs[bad]
	switch c.Behaviour {
	case "stalled":
		cl.Proxies[bad].SetMode(h.Stall)
	case "refuse":
		cl.Proxies[bad].SetMode(h.Refuse)
		cl.Proxies[bad].Reset()
		time.Sleep(5 * time.Millisecond)
	case "tarpit-reconnect":
		cl.Proxies[bad].SetMode(h.Tarpit)
		cl.Proxies[bad].Reset()
		time.Sleep(5 * time.Millisecond)
	}
	// background traffic
	var bg []*h.Task
	bgctx, bgcancel := context.WithCancel(context.Background())
	defer bgcancel()
	pad := 0
	if c.Instant == "write-blocked" {
		pad = 48 << 10
	}
	switch c.Traffic {
	case "finished-stream-call-enqueueing-to-jammed-peer":
		last := c.N - 1
		cl.Proxies[last].SetMode(h.Stall)
		for k := 0; k < 12; k++ {
			tok := h.NewToken()
			req := &puppet.Req{Call: tok, Seq: tok, Kind: 8, Pad: make([]byte, 48<<10)}
			go cl.Node(last).Uni(context.Background(), req, gorums.WithNoSendWaiting())
		}
		time.Sleep(30 * time.Millisecond)
		tok := h.NewToken()
		req := &puppet.Req{Call: tok, Seq: tok, Kind: 8}
		cl.QS.Register(&h.CallMon{Token: tok, Orig: req, Decide: func(inv *h.Inv) (bool, int) { return true, 1 }}) // done at the first reply
		bg = append(bg, h.Go("bg-stream", func() { <-cl.Cfg.CorrStream(context.Background(), req).Done() }))
		time.Sleep(50 * time.Millisecond)
	case "stuck-background-call":
		tok := h.NewToken()
		req := &puppet.Req{Call: tok, Seq: tok, Kind: 8, Pad: make([]byte, pad)}
		bg = append(bg, h.Go("bg", func() { cl.Node(bad).RPC(context.Background(), req) }))
		time.Sleep(5 * time.Millisecond)
	case "8-goroutines":
		for g := 0; g < 8; g++ {
			bg = append(bg, h.Go("bg", func() {
				for k := 0; k < 20 && bgctx.Err() == nil; k++ {
					tok := h.NewToken()
					ctx, cancel := context.WithTimeout(bgctx, 50*time.Millisecond)
					cl.Node((bad+k)%c.N).RPC(ctx, &puppet.Req{Call: tok, Seq: tok, Kind: 8, Pad: make([]byte, pad/4)})
					cancel()
				}
			}))
		}
	}
	if c.Instant == "write-blocked" {
		// fill the flow-control window towards the bad node so that the next write really blocks
		for k := 0; k < 10; k++ {
			tok := h.NewToken()
			req := &puppet.Req{Call: tok, Seq: tok, Kind: 8, Pad: make([]byte, 48<<10)}
			ctx, cancel := context.WithTimeout(bgctx, 20*time.Second)
			defer cancel()
			bg = append(bg, h.Go("filler", func() { cl.Node(bad).Uni(ctx, req, gorums.WithNoSendWaiting()) }))
		}
		time.Sleep(10 * time.Millisecond)
	}
	// the call under test
	var ctx endCtx = newManualCtx()
	var ctxErr error = context.Canceled
	if c.Deadline {
		ctxErr = context.DeadlineExceeded
	}
	awaitDelay := time.Duration(10+idx%20) * time.Millisecond
	if c.CtxKind == "with-cause" {
		// (a real deadline cannot be made to pass at a hook: those instants use WithCancelCause)
		timed := c.Deadline && (c.Instant == "before-call" || c.Instant == "write-blocked" || c.Instant == "awaiting-replies")
		d := awaitDelay
		if c.Instant == "before-call" {
			d = 0
		}
		ctx = newCauseCtx(timed, d)
		if !timed {
			ctxErr = context.Canceled
		}
	}
	tok := h.NewToken()
	underTest.Store(tok)
	req := &puppet.Req{Call: tok, Seq: tok, Kind: 8, Pad: make([]byte, pad)}
	mon := &h.CallMon{Token: tok, Orig: req, Decide: func(inv *h.Inv) (bool, int) {
		if c.Behaviour == "streams-forever" {
			time.Sleep(500 * time.Microsecond) // a quorum function with a cost: replies arrive faster than they are merged
		}
		return false, len(inv.Keys)
	}} // never quorum: only the context can end it
	cl.QS.Register(mon)
	var hold *h.Held
	if e.Hooks != nil {
		switch c.Instant {
		case "while-queued":
			hold = e.Hooks.Hold("enq.registered", id, 0, e.W+3*time.Second)
		case "while-being-written":
			hold = e.Hooks.Hold("snd.beforeWrite", id, 0, e.W+3*time.Second)
		}
	}
	if c.Instant == "before-call" {
		ctx.end(ctxErr)
	}
	var out Outcome
	var co []gorums.CallOption
	if c.NoWait {
		co = append(co, gorums.WithNoSendWaiting())
	}
	var ended atomic.Bool
	t := h.Go("c08:"+c.Method, func() {
		switch m := c.Method; {
		case m == "RPC":
			r, err := cl.Node(bad).RPC(ctx, req)
			out = Outcome{Rep: r, Err: err}
		case m == "Uni":
			cl.Node(bad).Uni(ctx, req, co...)
		case m == "Uni2":
			cl.Node(bad).Uni2(ctx, req, co...)
		case m == "Multi":
			cl.Cfg.Multi(ctx, req, co...)
		case m == "MultiPN":
			cl.Cfg.MultiPN(ctx, req, PN(nil), co...)
		case strings.HasPrefix(m, "QC"):
			out = CallQC(cl.Cfg, m, ctx, req, PN(nil))
		case strings.HasPrefix(m, "Async"):
			out = StartAsync(cl.Cfg, m, ctx, req, PN(nil)).Get()
		default:
			cr := StartCorr(cl.Cfg, m, ctx, req, PN(nil))
			<-cr.Done()
			_, _, err := cr.Raw()
			out = Outcome{Err: err}
		}
	})
	reached := ""
	switch c.Instant {
	case "while-queued", "while-being-written":
		if hold != nil {
			select {
			case <-hold.Reached():
				reached = "hook reached"
			case <-t.Done:
				reached = "call returned before the hook"
			case <-time.After(300 * time.Millisecond):
				reached = "hook not reached (call parked elsewhere)"
			}
		}
		if c.OthersFail {
			time.Sleep(5 * time.Millisecond) // the other nodes' failures arrive
		}
		ctx.end(ctxErr)
		ended.Store(true)
		time.Sleep(time.Millisecond)
		if hold != nil {
			e.Hooks.Disarm(hold)
		}
	case "write-blocked", "awaiting-replies":
		time.Sleep(awaitDelay)
		if c.Traffic == "stream-call-with-stalled-consumer" {
			// the call under test is in flight; now another call - a streaming correctable on the same nodes - gets replies
			// faster than its consumer takes them (its quorum function is stalled until the case is over), so the nodes'
			// receivers end up parked handing a reply over to it
			btok := h.NewToken()
			breq := &puppet.Req{Call: btok, Seq: btok, Kind: 9}
			cl.QS.Register(&h.CallMon{Token: btok, Orig: breq, Decide: func(inv *h.Inv) (bool, int) {
				<-release
				return true, 1
			}})
			bg = append(bg, h.Go("bg-stalled-stream", func() { <-cl.Cfg.CorrStream(bgctx, breq).Done() }))
			last, stable := int64(-1), 0
			for i := 0; i < 200 && stable < 5; i++ { // the servers' sends stop once the flow-control windows are full
				time.Sleep(2 * time.Millisecond)
				if v := bgStreamed.Load(); v == last && v > 0 {
					stable++
				} else {
					last, stable = v, 0
				}
			}
			R.Count("replies_streamed_to_a_stalled_consumer_before_the_context_ended", bgStreamed.Load())
		}
		ctx.end(ctxErr)
		ended.Store(true)
	}
	if ctx.Err() != nil {
		ctxErr = ctx.Err()
	}
	t0 := time.Now()
	var hi h.HangInfo
	if strings.HasPrefix(c.Method, "Corr") {
		hi = h.AwaitCompletion(t, e.W, "handleCorrectableCall") // (the task waits on the correctable's Done channel, in harness code)
	} else {
		hi = h.Await(t, e.W)
	}
	lat := time.Since(t0)
	det := map[string]any{"case": c, "steering": reached, "handlers_entered": entered.Load()}
	if c.Behaviour == "streams-forever" {
		R.Count("replies_streamed_by_never_ending_streams", streamed.Load())
	}
	if c.CtxKind != "" {
		R.Seen("ctx_kinds", fmt.Sprintf("%s(deadline=%v): Err=%v Cause=%v", c.CtxKind, c.Deadline, ctx.Err(), context.Cause(ctx)))
	}
	R.Eval(fmt.Sprintf("%+v", c), true)
	R.Seen("behaviours", c.Behaviour)
	R.Seen("instants", c.Instant)
	R.Seen("call_classes", callClass(c.Method))
	if reached != "" {
		R.Seen("steering", c.Instant+": "+reached)
	}
	switch hi.Verdict {
	case h.Hung:
		det["stack"] = hi.Stack
		det["others"] = hi.Others
		sig := "no-return-after-ctx-end:" + callClass(c.Method) + ":" + hi.Sig
		R.Violate(sig, fmt.Sprintf("%s (%s) did not return within %v after its context ended (%s); node %s, ctx end %s, traffic %s", c.Method, callClass(c.Method), e.W, hi.Sig, c.Behaviour, c.Instant, c.Traffic), det)
		return sig
	case h.Inconclusive:
		R.Inconc("await: " + hi.State)
		return ""
	}
	R.Max("max.return_latency_ms_after_ctx_end", lat.Milliseconds())
	if out.Err != nil {
		if !errors.Is(out.Err, ctxErr) {
			// legitimate node failure available? (refused / torn connection reported by the node's channel, or exhaustion by such errors)
			s := out.Err.Error()
			nodeFailure := c.Behaviour == "refuse" || c.Behaviour == "tarpit-reconnect"
			switch {
			case nodeFailure && (unavailableType(s) || errors.Is(out.Err, gorums.Incomplete)):
				// the connection to the node was torn down before the call: a write on the dead stream fails with the bare
				// transport EOF or an Unavailable status, whether or not the context has ended meanwhile
				R.Count("outcome.node_error_before_ctx", 1)
			case errors.Is(out.Err, gorums.Incomplete) && strings.Contains(s, "stream is down") && c.Traffic == "8-goroutines":
				// concurrent calls whose contexts ended made gorums reset the stream: a connection error for this call
				R.Count("outcome.node_error_from_foreign_reset", 1)
			case strings.Contains(s, "stream is down") && c.Traffic == "8-goroutines":
				R.Count("outcome.node_error_from_foreign_reset", 1)
			case errors.Is(out.Err, gorums.Incomplete) && !strings.Contains(s, "context canceled") && !strings.Contains(s, "context deadline exceeded") && !strings.Contains(s, "code = Canceled"):
				// every node had answered (or failed for its own reasons) just before the context ended: exhaustion came first
				R.Count("outcome.exhausted_just_before_ctx_end", 1)
			default:
				det["error"] = s
				R.Violate("error-does-not-match-ctx:"+callClass(c.Method)+":"+errShape(s), fmt.Sprintf("%s returned %q after its context ended with %v", c.Method, trunc(s, 160), ctxErr), det)
			}
		} else {
			R.Count("outcome.ctx_error", 1)
		}
	} else {
		R.Count("outcome.returned_without_error", 1)
	}
	R.Sample(map[string]any{"case": c, "steering": reached, "latency_ms_after_ctx_end": lat.Milliseconds(), "error": errText(out.Err)})
	return ""
}

func errShape(s string) string {
	switch {
	case strings.Contains(s, "code = Canceled"):
		return "status Canceled"
	case strings.Contains(s, "stream is down"):
		return "stream is down"
	case strings.Contains(s, "incomplete call"):
		return "incomplete"
	}
	return trunc(s, 40)
}
