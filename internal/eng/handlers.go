package eng

import (
	"context"
	"fmt"
	"math/rand"
	"sync"
	"sync/atomic"
	"time"

	"verif/internal/gen/puppet"
	"verif/internal/h"

	"github.com/relab/gorums"
)

// Handler scripts of the C04 engine (carried in Req.Kind).
const (
	hsPlain           = 20 + iota // reply; implicit release on return
	hsEarly                       // release, then work, then reply
	hsHundred                     // release 100 times, reply
	hsHelper                      // release from a helper goroutine
	hsConcurrent                  // release concurrently from 4 goroutines
	hsHold                        // hold the connection until the harness opens the gate, then reply
	hsEarlyLate                   // release early, reply only after the gate opens (replies out of order)
	hsReleaseThenHold             // release early, then stay alive until the gate opens (long-running released handler)
)

var hsNames = map[uint32]string{hsPlain: "plain", hsEarly: "release-early", hsHundred: "release-100x", hsHelper: "release-from-helper", hsConcurrent: "release-concurrently",
	hsHold: "hold-until-gate", hsEarlyLate: "release-early-reply-late", hsReleaseThenHold: "release-then-run-long"}

// connMon is the online monitor: per (server, connection) the number of handlers
// that have entered and not yet released.
type connMon struct {
	mu        sync.Mutex
	unrel     map[[2]uint64]*int32
	maxSeen   int32
	violation atomic.Pointer[string]
	entries   atomic.Int64
	overlaps  atomic.Int64 // released handlers observed running concurrently with a later one (allowed; coverage)
	running   map[[2]uint64]*int32
}

func (m *connMon) ctr(mp map[[2]uint64]*int32, k [2]uint64) *int32 {
	m.mu.Lock()
	defer m.mu.Unlock()
	p := mp[k]
	if p == nil {
		p = new(int32)
		mp[k] = p
	}
	return p
}

// RunHandlers is the engine behind C04.
func RunHandlers(e *Env) {
	R := e.R
	R.Rule = "seeded workloads of 1-4 clients (own manager = own connection) per server, n in 1..5, mixing handler scripts (plain, release early, release 100x, release from a helper goroutine, release concurrently from 4 goroutines, " +
		"hold until gate, release early and reply late, release then run long) over all two-way and one-way methods; online monitor in the puppet handler: per connection the count of handlers entered and not yet released must be exactly 1 at entry " +
		"(decremented immediately before the handler releases or returns, so a correct server cannot be flagged); directed sub-cases: a never-releasing handler delays only its own connection (a second client completes K calls meanwhile, the first client's next request has not entered), " +
		"after the release the queued handler starts (hang rule), replies of released handlers reach the right call (token check); released handlers that outlive their client's connections (manager closed while they run, then they reply) while a second client keeps being served; clients that leave (manager closed) while one of their handlers holds the connection with further requests already written behind it: no handler of that connection starts while the holder holds; distinct = case parameters; non-trivial = >=2 scripts or >=2 clients"
	R.Assume("the monitor's decrement precedes the unlock and its increment follows the server's lock acquisition, hence no false alarm on a correct server")
	rng := e.Rand(4)
	ncase := e.Pick(400, 40000)
	for i := 0; i < ncase; i++ {
		if e.Of > 1 && i%e.Of != e.Batch {
			continue
		}
		if R.NumViolations() > 10 {
			break
		}
		runHandlerCase(e, i, rand.New(rand.NewSource(rng.Int63())))
	}
	for rep := 0; rep < e.Pick(6, 60); rep++ {
		if e.Of > 1 && rep%e.Of != e.Batch {
			continue
		}
		if R.NumViolations() > 10 {
			break
		}
		runReleasedOutlivesClient(e, rep)
	}
	for rep := 0; rep < e.Pick(24, 400); rep++ {
		if e.Of > 1 && rep%e.Of != e.Batch {
			continue
		}
		if R.NumViolations() > 10 {
			break
		}
		runClientLeavesWhileHeld(e, rep)
	}
}

// runReleasedOutlivesClient: handlers of client A release early and go on running; A's manager is closed (its connections end)
// while they run; then they reply. Nothing of that may concern client B, which keeps calling the same servers throughout and
// afterwards (a crash of the server side ends this process and is reported by the parent as a crash inside the library).
func runReleasedOutlivesClient(e *Env, rep int) {
	R := e.R
	n := 1 + rep%3
	cl, err := h.NewCluster(h.Options{N: n, Block: true, DialTimeout: 2 * time.Second})
	if err != nil {
		R.Inconc("cluster: " + err.Error())
		return
	}
	defer cl.Close()
	var late atomic.Int64
	cl.SetBehaviour(func(c *h.HCall) (*puppet.Rep, error) {
		if c.Req.GetKind() == 41 {
			c.Ctx.Release()
			time.Sleep(time.Duration(10+c.E.Serial%10) * time.Millisecond) // the client is gone by the time this reply is sent
			late.Add(1)
			if c.Send != nil {
				c.Send(c.Rep(0))
				c.Send(c.Rep(1))
				return nil, nil
			}
		}
		return c.Rep(0), nil
	})
	stop := make(chan struct{})
	var bCalls, bFailed atomic.Int64
	tb := h.Go("c04:client-B", func() {
		for {
			select {
			case <-stop:
				return
			default:
			}
			tok := h.NewToken()
			ctx, cancel := context.WithTimeout(context.Background(), 3*time.Second)
			rep, err := cl.Node(int(tok)%n).RPC(ctx, &puppet.Req{Call: tok, Seq: tok, Kind: 4})
			cancel()
			bCalls.Add(1)
			if err != nil || rep.GetCall() != tok {
				bFailed.Add(1)
			}
			time.Sleep(200 * time.Microsecond)
		}
	})
	for round := 0; round < 8; round++ {
		qs := &h.QSpec{}
		ma := puppet.NewManager(cl.MgrOptions()...)
		cfgA, err := ma.NewConfiguration(gorums.WithNodeMap(cl.NodeMap()), qs)
		if err != nil {
			R.Inconc("client A: " + err.Error())
			break
		}
		for k := 0; k < 3; k++ {
			tok := h.NewToken()
			req := &puppet.Req{Call: tok, Seq: tok, Kind: 41}
			qs.Register(&h.CallMon{Token: tok, Orig: req, Decide: func(inv *h.Inv) (bool, int) { return false, len(inv.Keys) }})
			ctx, cancel := context.WithTimeout(context.Background(), 2*time.Second)
			defer cancel()
			m := []string{"QC", "Async", "CorrStream"}[(round+k)%3]
			go func() {
				if w := Invoke(cl, cfgA, &Op{Method: m}, ctx, req); w != nil {
					w()
				}
			}()
		}
		time.Sleep(3 * time.Millisecond) // the handlers have released and are running
		tcl := h.Go("c04:close-A", func() { ma.Close() })
		h.Await(tcl, e.W)
		time.Sleep(25 * time.Millisecond) // the released handlers reply to a connection that is gone
	}
	close(stop)
	h.Await(tb, e.W+3*time.Second)
	// B is served afterwards as well
	ok := 0
	for k := 0; k < 5; k++ {
		tok := h.NewToken()
		ctx, cancel := context.WithTimeout(context.Background(), 3*time.Second)
		rep, err := cl.Node(k%n).RPC(ctx, &puppet.Req{Call: tok, Seq: tok, Kind: 4})
		cancel()
		if err == nil && rep.GetCall() == tok {
			ok++
		}
	}
	if bFailed.Load() > 0 || ok < 5 {
		R.Violate("other-client-disturbed-by-released-handlers", fmt.Sprintf("client B: %d of %d calls failed while released handlers of client A outlived A's connections, %d of 5 calls afterwards succeeded", bFailed.Load(), bCalls.Load(), ok), map[string]any{"n": n, "late_replies": late.Load()})
	}
	R.Eval(fmt.Sprintf("released-handler-outlives-client|n=%d|%d", n, rep), true)
	R.Count("released_handlers_replying_after_their_client_was_closed", late.Load())
	R.Count("calls_of_the_other_client_meanwhile", bCalls.Load())
}

func runHandlerCase(e *Env, idx int, rng *rand.Rand) {
	R := e.R
	n := 1 + rng.Intn(5)
	nclients := 1 + rng.Intn(4)
	cl, err := h.NewCluster(h.Options{N: n, Block: true, DialTimeout: 2 * time.Second, SendBuffer: []uint{0, 4}[rng.Intn(2)]})
	if err != nil {
		R.Inconc("cluster: " + err.Error())
		return
	}
	defer cl.Close()
	mon := &connMon{unrel: map[[2]uint64]*int32{}, running: map[[2]uint64]*int32{}}
	gates := sync.Map{} // call token -> chan struct{}
	gateOf := func(tok uint64) chan struct{} {
		v, _ := gates.LoadOrStore(tok, make(chan struct{}))
		return v.(chan struct{})
	}
	flag := func(s string) {
		mon.violation.CompareAndSwap(nil, &s)
	}
	cl.SetBehaviour(func(c *h.HCall) (*puppet.Rep, error) {
		k := [2]uint64{uint64(c.S.Index), c.E.Conn}
		u := mon.ctr(mon.unrel, k)
		run := mon.ctr(mon.running, k)
		mon.entries.Add(1)
		if v := atomic.AddInt32(u, 1); v != 1 {
			flag(fmt.Sprintf("server %d connection %d: handler for issue #%d (%s) entered while %d earlier handler(s) of the same connection had neither returned nor released", c.S.Index, c.E.Conn, c.E.Seq, c.Method, v-1))
		}
		if atomic.AddInt32(run, 1) > 1 {
			mon.overlaps.Add(1)
		}
		defer atomic.AddInt32(run, -1)
		released := false
		rel := func() { // first release: decrement strictly before unlocking
			if !released {
				released = true
				atomic.AddInt32(u, -1)
			}
		}
		defer func() {
			// implicit release on return: the decrement must precede the wrapper's deferred Release
			rel()
		}()
		script := c.Req.GetKind()
		done := c.S.Done()
		wait := func(ch chan struct{}) bool {
			select {
			case <-ch:
				return true
			case <-done:
				return false
			}
		}
		switch script {
		case hsEarly:
			rel()
			c.Ctx.Release()
			time.Sleep(time.Duration(c.E.Serial%4) * 150 * time.Microsecond)
		case hsHundred:
			rel()
			for i := 0; i < 100; i++ {
				c.Ctx.Release()
			}
		case hsHelper:
			rel()
			d := make(chan struct{})
			go func() { c.Ctx.Release(); close(d) }()
			<-d
		case hsConcurrent:
			rel()
			var wg sync.WaitGroup
			start := make(chan struct{})
			for i := 0; i < 4; i++ {
				wg.Add(1)
				go func() { defer wg.Done(); <-start; c.Ctx.Release() }()
			}
			close(start)
			wg.Wait()
		case hsHold:
			if !wait(gateOf(c.Req.GetCall())) {
				return nil, h.ErrSilent
			}
		case hsEarlyLate, hsReleaseThenHold:
			rel()
			c.Ctx.Release()
			if !wait(gateOf(c.Req.GetCall())) {
				return nil, h.ErrSilent
			}
		}
		if c.Send != nil {
			c.Send(c.Rep(0))
			return nil, nil
		}
		return c.Rep(0), nil
	})
	// extra clients
	type client struct {
		mgr *puppet.Manager
		cfg *puppet.Configuration
		qs  *h.QSpec
	}
	clients := []client{{cl.Mgr, cl.Cfg, cl.QS}}
	for i := 1; i < nclients; i++ {
		qs := &h.QSpec{}
		m := puppet.NewManager(cl.MgrOptions()...)
		cfg, err := m.NewConfiguration(gorums.WithNodeMap(cl.NodeMap()), qs)
		if err != nil {
			R.Inconc("extra client: " + err.Error())
			return
		}
		defer func() { go m.Close() }()
		clients = append(clients, client{m, cfg, qs})
	}
	wrongReplies := atomic.Int64{}
	call := func(c client, method string, script uint32, node int, seq uint64) (tok uint64, t *h.Task) {
		tok = h.NewToken()
		req := &puppet.Req{Call: tok, Seq: seq, Kind: script}
		cm := &h.CallMon{Token: tok, Orig: req, Decide: func(inv *h.Inv) (bool, int) {
			for id, r := range inv.Reps {
				if r.Call != tok || r.Node != id {
					wrongReplies.Add(1)
				}
			}
			return len(inv.Keys) >= n, len(inv.Keys)
		}}
		c.qs.Register(cm)
		t = h.Go("c04:"+method, func() {
			switch method {
			case "RPC":
				var nd *puppet.Node
				for _, x := range c.cfg.Nodes() {
					if x.ID() == cl.IDs[node] {
						nd = x
					}
				}
				rep, err := nd.RPC(context.Background(), req)
				if err == nil && (rep.GetCall() != tok || rep.GetNode() != cl.IDs[node]) {
					wrongReplies.Add(1)
				}
			case "QC":
				c.cfg.QC(context.Background(), req)
			case "Async":
				c.cfg.Async(context.Background(), req).Get()
			case "Corr":
				<-c.cfg.Corr(context.Background(), req).Done()
			case "CorrStream":
				<-c.cfg.CorrStream(context.Background(), req).Done()
			case "Multi":
				c.cfg.Multi(context.Background(), req)
			case "Uni":
				var nd *puppet.Node
				for _, x := range c.cfg.Nodes() {
					if x.ID() == cl.IDs[node] {
						nd = x
					}
				}
				nd.Uni(context.Background(), req)
			}
		})
		return tok, t
	}
	scriptsUsed := map[uint32]bool{}
	// ---- phase A: random mix, several clients concurrently ----
	var wg sync.WaitGroup
	var pend []uint64
	var pmu sync.Mutex
	var tasks []*h.Task
	for ci, c := range clients {
		wg.Add(1)
		cr := rand.New(rand.NewSource(rng.Int63()))
		for _, s := range []uint32{hsPlain, hsEarly, hsHundred, hsHelper, hsConcurrent, hsEarlyLate, hsReleaseThenHold} {
			scriptsUsed[s] = true
		}
		go func(ci int, c client) {
			defer wg.Done()
			for k := 0; k < 30; k++ {
				method := []string{"RPC", "QC", "Async", "Corr", "CorrStream", "Multi", "Uni"}[cr.Intn(7)]
				script := []uint32{hsPlain, hsEarly, hsHundred, hsHelper, hsConcurrent, hsEarlyLate, hsReleaseThenHold}[cr.Intn(7)]
				tok, t := call(c, method, script, cr.Intn(n), uint64(k+1))
				pmu.Lock()
				tasks = append(tasks, t)
				if script == hsEarlyLate || script == hsReleaseThenHold {
					pend = append(pend, tok)
				}
				pmu.Unlock()
				if script != hsEarlyLate && script != hsReleaseThenHold && cr.Intn(2) == 0 {
					select {
					case <-t.Done:
					case <-time.After(50 * time.Millisecond):
					}
				}
				// release some pending late repliers out of order
				pmu.Lock()
				if len(pend) > 0 && cr.Intn(3) == 0 {
					j := cr.Intn(len(pend))
					close(gateOf(pend[j]))
					pend = append(pend[:j], pend[j+1:]...)
				}
				pmu.Unlock()
			}
		}(ci, c)
	}
	wg.Wait()
	pmu.Lock()
	for _, tok := range pend {
		close(gateOf(tok))
	}
	pend = nil
	pmu.Unlock()
	unfinished := 0
	for _, t := range tasks {
		if hi := h.Await(t, e.W); hi.Verdict != h.Returned {
			unfinished++
			if hi.Verdict == h.Hung {
				R.Violate("released-handlers-stall:"+hi.Sig, "a call did not complete although every handler replied or released: "+hi.Sig, map[string]any{"stack": hi.Stack, "others": hi.Others})
			} else {
				R.Inconc("phase A await: " + hi.State)
			}
			return
		}
	}
	// ---- phase B (directed): a never-releasing handler delays only its own connection ----
	srv := rng.Intn(n)
	first := clients[0]
	holdTok, holdTask := call(first, "RPC", hsHold, srv, 1000)
	// wait until the holding handler has entered
	entered := func(tok uint64) bool {
		for _, en := range cl.Srvs[srv].Log() {
			if en.Call == tok {
				return true
			}
		}
		return false
	}
	dl := time.Now().Add(e.W)
	for !entered(holdTok) && time.Now().Before(dl) {
		time.Sleep(time.Millisecond)
	}
	if !entered(holdTok) {
		R.Inconc("holding handler never entered (foreign: delivery)")
		close(gateOf(holdTok))
		return
	}
	scriptsUsed[hsHold] = true
	// the same client's next request to that server
	nextTok, nextTask := call(first, "RPC", hsPlain, srv, 1001)
	// other clients complete K calls on that server meanwhile
	if len(clients) > 1 {
		K := 5
		for k := 0; k < K; k++ {
			for _, c := range clients[1:] {
				_, t := call(c, "RPC", hsPlain, srv, uint64(2000+k))
				if hi := h.Await(t, e.W); hi.Verdict == h.Hung {
					R.Violate("other-client-delayed", "a handler that never releases delayed a request of another client's connection: "+hi.Sig,
						map[string]any{"stack": hi.Stack, "others": hi.Others, "server": srv})
					close(gateOf(holdTok))
					return
				} else if hi.Verdict == h.Inconclusive {
					R.Inconc("phase B await: " + hi.State)
				}
			}
		}
		R.Count("directed.other_client_calls_during_hold", int64(K*(len(clients)-1)))
	} else {
		time.Sleep(5 * time.Millisecond)
	}
	if entered(nextTok) {
		R.Violate("next-handler-started-during-hold", "the next request of a connection entered its handler while the previous handler had neither returned nor released", map[string]any{"server": srv})
	}
	// release: the queued handler must now start and both calls complete
	close(gateOf(holdTok))
	for _, t := range []*h.Task{holdTask, nextTask} {
		if hi := h.Await(t, e.W); hi.Verdict == h.Hung {
			R.Violate("queued-handler-not-started-after-release", "after the holding handler returned, the queued request of the same connection was not handled: "+hi.Sig,
				map[string]any{"stack": hi.Stack, "others": hi.Others})
			return
		}
	}
	if v := mon.violation.Load(); v != nil {
		R.Violate("two-unreleased-handlers", *v, map[string]any{"n": n, "clients": nclients})
	}
	if w := wrongReplies.Load(); w > 0 {
		R.Violate("released-handler-reply-misrouted", fmt.Sprintf("%d replies of (released) handlers reached a call that did not ask for them", w), nil)
	}
	R.Eval(fmt.Sprintf("%d|%d|%d", n, nclients, idx), true)
	R.Count("handler_entries", mon.entries.Load())
	R.Count("released_handlers_overlapping_later_ones", mon.overlaps.Load())
	R.Count("calls", int64(len(tasks)+2))
	for s := range scriptsUsed {
		R.Seen("scripts", hsNames[s])
	}
	R.Seen("clients_per_server", fmt.Sprint(nclients))
	R.Sample(map[string]any{"n": n, "clients": nclients, "handler_entries": mon.entries.Load(), "overlaps_of_released_handlers": mon.overlaps.Load(), "held_server": srv})
}
