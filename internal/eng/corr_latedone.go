package eng

import (
	"context"
	"fmt"
	"time"

	"verif/internal/gen/puppet"
	"verif/internal/h"
)

// runCorrLateDone: correctable calls whose Done() is asked for the first time only after the call has completed (the caller
// waited on a Watch channel or polled Get instead). Completion by done, by exhaustion, by node errors and by the context's end,
// for plain and streaming variants. After completion - known from a Watch channel for a level that is never reached, which
// completion releases - the first Done() ever obtained must be closed, as must one obtained later.
func runCorrLateDone(e *Env) {
	R := e.R
	variants := []string{"Corr", "CorrPN", "CorrCustom", "CorrCombo", "CorrStream", "CorrStreamPN", "CorrStreamCustom", "CorrStreamCombo"}
	ways := []string{"done", "exhaustion", "context", "deadline"}
	idx := 0
	for rep := 0; rep < e.Pick(2, 40); rep++ {
		for _, v := range variants {
			for _, way := range ways {
				idx++
				if e.Of > 1 && idx%e.Of != e.Batch {
					continue
				}
				if R.NumViolations() > 8 {
					return
				}
				corrLateDoneCase(e, v, way, 1+(idx+rep)%3)
			}
		}
	}
}

func corrLateDoneCase(e *Env, variant, way string, n int) {
	R := e.R
	cl, err := h.NewCluster(h.Options{N: n, Block: true, DialTimeout: 2 * time.Second})
	if err != nil {
		R.Inconc("cluster: " + err.Error())
		return
	}
	defer cl.Close()
	stream := len(variant) >= 10 && variant[:10] == "CorrStream"
	release := make(chan struct{})
	defer close(release)
	cl.SetBehaviour(func(c *h.HCall) (*puppet.Rep, error) {
		if way == "context" || way == "deadline" {
			c.Ctx.Release()
			select {
			case <-release:
			case <-c.S.Done():
			}
			return nil, h.ErrSilent
		}
		if c.Send != nil {
			for i := 0; i < 2; i++ {
				if c.Send(c.Rep(uint32(i))) != nil {
					break
				}
			}
			return nil, nil
		}
		return c.Rep(0), nil
	})
	tok := h.NewToken()
	req := &puppet.Req{Call: tok, Seq: tok, Kind: 11}
	cl.QS.Register(&h.CallMon{Token: tok, Orig: req, Decide: func(inv *h.Inv) (bool, int) {
		return way == "done" && len(inv.Keys) >= n, inv.Idx
	}})
	defer cl.QS.Unregister(tok)
	ctx := newManualCtx()
	defer ctx.end(context.Canceled)
	var corr Corr
	t0 := h.Go("corr-start", func() { corr = StartCorr(cl.Cfg, variant, ctx, req, PN(nil)) })
	if hi := h.Await(t0, e.W); hi.Verdict != h.Returned {
		R.Inconc("starting correctable call did not return: " + hi.Sig)
		return
	}
	never := corr.Watch(1 << 30) // released by completion only
	switch way {
	case "context":
		time.Sleep(5 * time.Millisecond)
		ctx.end(context.Canceled)
	case "deadline":
		time.Sleep(5 * time.Millisecond)
		ctx.end(context.DeadlineExceeded)
	case "exhaustion":
		if stream {
			// a stream call without 'done' only completes when its context ends (or every node fails)
			time.Sleep(20 * time.Millisecond)
			ctx.end(context.Canceled)
		}
	}
	select {
	case <-never:
	case <-time.After(e.W):
		// completion itself is judged by the gated scenarios; here it is only the precondition
		R.Inconc(fmt.Sprintf("%s/%s: the call did not complete (Watch for an unreachable level still open after %v)", variant, way, e.W))
		return
	}
	_, lvl, cerr := corr.Raw() // (takes the correctable's lock: the completing publication has finished)
	first := corr.Done()       // the first Done() of this call
	det := map[string]any{"variant": variant, "completed_by": way, "n": n, "final_level": lvl, "final_err": errText(cerr)}
	if !closed(first) {
		time.Sleep(50 * time.Millisecond)
		if !closed(first) {
			R.Violate("done-not-released-when-first-asked-after-completion", fmt.Sprintf("%s completed by %s (every Watch channel is released, Get: level %d, err %v), but the Done() channel obtained afterwards - the first one asked for - is not closed", variant, way, lvl, cerr), det)
		}
	}
	if !closed(corr.Done()) {
		R.Violate("done-not-released-when-first-asked-after-completion", fmt.Sprintf("%s completed by %s: a second Done() channel obtained after completion is not closed", variant, way), det)
	}
	R.Eval(fmt.Sprintf("late-done|%s|%s|%d", variant, way, n), true)
	R.Count("calls_whose_first_Done_was_asked_after_completion", 1)
}
