package eng

import (
	"context"
	"fmt"
	"math/rand"
	"strconv"
	"sync"
	"time"

	"verif/internal/gen/puppet"
	"verif/internal/h"

	"google.golang.org/grpc/backoff"
	"google.golang.org/grpc/metadata"
)

// RCase is one stop/start sequence of the C10 engine.
type RCase struct {
	N       int      `json:"n"`
	Backoff string   `json:"backoff"` // default | short | B6s
	Block   bool     `json:"blocking_dial"`
	Down    []int    `json:"down_at_creation"`
	Steps   []string `json:"steps"`
}

func backoffCfg(name string) (*backoff.Config, time.Duration) {
	switch name {
	case "short":
		return &backoff.Config{BaseDelay: 50 * time.Millisecond, Multiplier: 1.6, Jitter: 0.2, MaxDelay: 200 * time.Millisecond}, 200 * time.Millisecond
	case "B6s":
		return &backoff.Config{BaseDelay: 6 * time.Second, Multiplier: 1, Jitter: 0, MaxDelay: 6 * time.Second}, 6 * time.Second
	}
	return nil, 2 * time.Second // default: base 1 s, first retries <= ~2 s
}

// RunRestart is the engine behind C10.
func RunRestart(e *Env) {
	R := e.R
	R.Rule = "seeded stop/start sequences over subsets of 3-5 nodes: down at creation (blocking and non-blocking dial; coming up either before any call or in the middle of calls that fail in the sender), crash while idle / while a handler is gated / repeatedly, outages 0-1.5 s, interleaved with calls; back-off configurations default, 50-200 ms and a fixed 6 s (multiplier 1, jitter 0); " +
		"oracle: (a) after a node listens again, probe calls with fresh contexts reach the new server within 2B+W; (b) a probe whose request the restarted server handled and answered (server-side event) returns that reply within 3 s (< B for the 6 s configuration: it must not wait out the back-off timer); " +
		"(c) every accepted server stream triggered the connect callback exactly once and before its first handler, and carries the manager's metadata and the per-node metadata with the right values; distinct = sequence"
	R.Assume("the same back-off value is handed to gRPC's ClientConn (mgr.go), so the transport itself may wait up to B before re-dialling; clause (a) therefore allows 2B+W")
	rng := e.Rand(10)
	var cases []RCase
	mk := func(bk string) RCase {
		n := 3 + rng.Intn(3)
		c := RCase{N: n, Backoff: bk, Block: rng.Intn(2) == 0}
		for i := 0; i < n; i++ {
			if rng.Intn(5) == 0 {
				c.Down = append(c.Down, i)
			}
		}
		nsteps := 4 + rng.Intn(6)
		if bk == "B6s" {
			nsteps = 3
		}
		for s := 0; s < nsteps; s++ {
			i := rng.Intn(n)
			switch rng.Intn(5) {
			case 0:
				c.Steps = append(c.Steps, "crash-idle:"+strconv.Itoa(i))
			case 1:
				c.Steps = append(c.Steps, "crash-gated:"+strconv.Itoa(i))
			case 2:
				c.Steps = append(c.Steps, "crash-twice:"+strconv.Itoa(i))
			case 3:
				c.Steps = append(c.Steps, "calls")
			default:
				c.Steps = append(c.Steps, "outage:"+strconv.Itoa(i)+":"+strconv.Itoa(rng.Intn(1500)))
			}
		}
		return c
	}
	for i := 0; i < e.Pick(40, 4000); i++ {
		cases = append(cases, mk([]string{"default", "short", "short"}[rng.Intn(3)]))
	}
	for i := 0; i < e.Pick(8, 300); i++ {
		cases = append(cases, mk("B6s"))
	}
	// nodes that are down at creation (non-blocking dial) and come up under traffic, for every back-off configuration
	for rep := 0; rep < e.Pick(6, 60); rep++ {
		cases = append(cases, RCase{N: 3, Backoff: []string{"short", "default", "short"}[rep%3], Down: []int{rep % 3, (rep + 1) % 3}, Steps: []string{"calls"}})
	}
	// the directed sequence for the back-off clause
	cases = append(cases, RCase{N: 3, Backoff: "B6s", Steps: []string{"crash-idle:0"}}, RCase{N: 3, Backoff: "B6s", Block: true, Down: []int{1}, Steps: []string{"calls"}})
	var wg sync.WaitGroup
	sem := make(chan struct{}, 16)
	for i, c := range cases {
		if e.Of > 1 && i%e.Of != e.Batch {
			continue
		}
		if R.NumViolations() > 6 {
			break
		}
		sem <- struct{}{}
		wg.Add(1)
		go func(i int, c RCase) {
			defer wg.Done()
			defer func() { <-sem }()
			runRestartCase(e, i, c)
		}(i, c)
	}
	wg.Wait()
	for rep := 0; rep < e.Pick(8, 100); rep++ {
		if e.Of > 1 && rep%e.Of != e.Batch {
			continue
		}
		if R.NumViolations() > 6 {
			break
		}
		runRestartReceiverLate(e, rep)
	}
}

func runRestartCase(e *Env, idx int, c RCase) {
	R := e.R
	caseStart := time.Now()
	_ = caseStart
	bk, B := backoffCfg(c.Backoff)
	md := metadata.Pairs("verif-general", "g-"+strconv.Itoa(idx), "verif-multi", "a", "verif-multi", "b")
	per := func(id uint32) metadata.MD { return metadata.Pairs("verif-node", strconv.Itoa(int(id))) }
	cl, err := h.NewCluster(h.Options{N: c.N, Block: c.Block, DialTimeout: 300 * time.Millisecond, Backoff: bk, MD: md, PerNodeMD: per, Down: c.Down})
	if err != nil {
		R.Inconc("cluster: " + err.Error())
		return
	}
	defer cl.Close()
	gate := make(chan struct{})
	var gonce sync.Once
	openGate := func() { gonce.Do(func() { close(gate) }) }
	defer openGate()
	cl.SetBehaviour(func(hc *h.HCall) (*puppet.Rep, error) {
		if hc.Req.GetKind() == 77 { // gated call
			select {
			case <-gate:
			case <-hc.S.Done():
				return nil, h.ErrSilent
			}
		}
		if hc.Send != nil {
			hc.Send(hc.Rep(0))
			return nil, nil
		}
		return hc.Rep(0), nil
	})
	handled := func(i int, tok uint64) bool {
		for _, en := range cl.Srvs[i].Log() {
			if en.Call == tok {
				return true
			}
		}
		return false
	}
	// probe node i until it answers; returns false after the bound
	probe := func(i int, why string) bool {
		deadline := time.Now().Add(2*B + e.W)
		attempts := 0
		for time.Now().Before(deadline) {
			attempts++
			tok := h.NewToken()
			req := &puppet.Req{Call: tok, Seq: tok, Kind: 10}
			ctx, cancel := context.WithTimeout(context.Background(), 3*time.Second)
			var rep *puppet.Rep
			var err error
			t := h.Go("probe", func() { rep, err = cl.Node(i).RPC(ctx, req) })
			hi := h.Await(t, 3*time.Second+e.W)
			cancel()
			if hi.Verdict == h.Hung {
				R.Violate("probe-stuck:"+hi.Sig, fmt.Sprintf("probe call to a restarted node does not return: %s", hi.Sig), map[string]any{"case": c, "stack": hi.Stack, "others": hi.Others})
				return false
			}
			if err == nil && rep.GetCall() == tok {
				R.Count("probes_answered", 1)
				R.Max("max.probe_attempts_until_answer", int64(attempts))
				return true
			}
			// clause (b): the server handled and answered this very request, yet the call did not get the reply
			time.Sleep(20 * time.Millisecond)
			if handled(i, tok) {
				parked := h.LibSummary(h.Dump(), 0)
				sig := "reply-not-delivered-after-restart"
				for _, p := range parked {
					if p == "select@(*channel).reconnect" {
						sig = "reply-waits-for-backoff"
					}
				}
				dd := map[string]any{"case": c, "node_index": i, "parked": parked, "stacks": h.LibStacks(h.Dump(), 0)}
				if e.Hooks != nil {
					dd["hook_trace(diagnosis)"] = e.Hooks.NodeTrace(cl.IDs[i])
					dd["per_message_events(diagnosis)"] = e.Hooks.MsgEvents(cl.IDs[i])
					dd["now_ms"] = time.Since(caseStart).Milliseconds()
				}
				R.Violate(sig, fmt.Sprintf("the restarted server handled and answered the probe, but the call ended with %v (back-off %s, %s); parked library goroutines: %v", err, c.Backoff, why, parked), dd)
				return false
			}
			time.Sleep(30 * time.Millisecond)
		}
		R.Violate("node-not-used-again", fmt.Sprintf("node index %d listens again but no probe reached it within 2B+W=%v (back-off %s, %s)", i, 2*B+e.W, c.Backoff, why), map[string]any{"case": c, "attempts": attempts})
		return false
	}
	// nodes down at creation come up first
	for k, i := range c.Down {
		if !c.Block && (idx+k)%2 == 0 {
			// calls are already being made while the node is still down (each fails in the sender); it starts listening in the
			// middle of that traffic, i.e. possibly while the sender is dialling or waiting to retry
			d := time.Duration(30+37*((idx+k)%7)) * time.Millisecond
			rerr := make(chan error, 1)
			go func() { time.Sleep(d); rerr <- cl.Srvs[i].Restart() }()
			ok := probe(i, "down at creation, calls during the outage")
			if err := <-rerr; err != nil {
				R.Inconc("restart: " + err.Error())
				return
			}
			if !ok {
				return
			}
			R.Count("nodes_coming_up_under_traffic", 1)
			continue
		}
		time.Sleep(50 * time.Millisecond)
		if err := cl.Srvs[i].Restart(); err != nil {
			R.Inconc("restart: " + err.Error())
			return
		}
		if !probe(i, "down at creation") {
			return
		}
	}
	restarts := len(c.Down)
	for _, st := range c.Steps {
		var kind string
		var i, ms int
		fmt.Sscanf(replaceColons(st), "%s %d %d", &kind, &i, &ms)
		switch kind {
		case "calls":
			for k := 0; k < 3; k++ {
				tok := h.NewToken()
				req := &puppet.Req{Call: tok, Seq: tok, Kind: 10}
				mon := &h.CallMon{Token: tok, Orig: req, Decide: func(inv *h.Inv) (bool, int) { return len(inv.Keys) >= c.N, len(inv.Keys) }}
				cl.QS.Register(mon)
				ctx, cancel := context.WithTimeout(context.Background(), 3*time.Second)
				t := h.Go("qc", func() { cl.Cfg.QC(ctx, req) })
				h.Await(t, 3*time.Second+e.W)
				cancel()
			}
		case "crash-idle", "crash-gated", "crash-twice", "outage":
			if kind == "crash-gated" {
				tok := h.NewToken()
				req := &puppet.Req{Call: tok, Seq: tok, Kind: 77}
				ctx, cancel := context.WithTimeout(context.Background(), 2*time.Second)
				defer cancel()
				h.Go("gated", func() { cl.Node(i).RPC(ctx, req) })
				for k := 0; k < 100 && !handled(i, tok); k++ {
					time.Sleep(2 * time.Millisecond)
				}
			}
			cl.Srvs[i].Stop()
			out := time.Duration(ms) * time.Millisecond
			if kind != "outage" {
				out = 20 * time.Millisecond
			}
			time.Sleep(out)
			if err := cl.Srvs[i].Restart(); err != nil {
				R.Inconc("restart: " + err.Error())
				return
			}
			restarts++
			if kind == "crash-twice" {
				time.Sleep(10 * time.Millisecond)
				cl.Srvs[i].Stop()
				time.Sleep(10 * time.Millisecond)
				if err := cl.Srvs[i].Restart(); err != nil {
					R.Inconc("restart: " + err.Error())
					return
				}
				restarts++
			}
			if !probe(i, st) {
				return
			}
		}
	}
	openGate()
	// clause (c): connect callback and metadata on every accepted stream
	streams := 0
	for i, s := range cl.Srvs {
		if o := s.Orphans(); o > 0 {
			R.Violate("handler-before-connect-callback", fmt.Sprintf("server %d ran %d handlers on a stream whose connect callback had not been invoked", i, o), map[string]any{"case": c})
			return
		}
		for _, ci := range s.Conns() {
			streams++
			if ci.Callbacks != 1 {
				R.Violate("connect-callback-count", fmt.Sprintf("server %d stream %d: connect callback invoked %d times", i, ci.ID, ci.Callbacks), map[string]any{"case": c})
				return
			}
			g := ci.MD.Get("verif-general")
			m := ci.MD.Get("verif-multi")
			nd := ci.MD.Get("verif-node")
			if len(g) != 1 || g[0] != "g-"+strconv.Itoa(idx) || len(m) != 2 || m[0] != "a" || m[1] != "b" || len(nd) != 1 || nd[0] != strconv.Itoa(int(cl.IDs[i])) {
				R.Violate("connection-metadata", fmt.Sprintf("server %d stream %d (incarnation %d): metadata general=%v multi=%v node=%v, want g-%d / [a b] / %d", i, ci.ID, ci.Gen, g, m, nd, idx, cl.IDs[i]), map[string]any{"case": c})
				return
			}
		}
	}
	R.Eval(fmt.Sprintf("%+v", c), true)
	R.Count("restarts", int64(restarts))
	R.Count("server_streams_checked", int64(streams))
	R.Seen("backoff_configs", c.Backoff)
	R.Sample(map[string]any{"case": c, "restarts": restarts, "streams": streams})
}

func replaceColons(s string) string {
	b := []byte(s)
	for i := range b {
		if b[i] == ':' {
			b[i] = ' '
		}
	}
	return string(b)
}

var _ = rand.Intn
