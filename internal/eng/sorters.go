package eng

import (
	"errors"
	"fmt"
	"net"
	"sort"
	"strconv"
	"strings"
	"time"

	"verif/internal/h"

	"github.com/relab/gorums"
)

type sortKey struct {
	name string
	less func(a, b *gorums.RawNode) bool
	cmp  func(a, b *gorums.RawNode) int // model: three-way comparison on the key
}

func portOf(n *gorums.RawNode) int {
	_, p, _ := net.SplitHostPort(n.Address())
	v, _ := strconv.Atoi(p)
	return v
}

func sgn(b bool) int {
	if b {
		return 1
	}
	return 0
}

// RunSorters is the engine behind C19.
func RunSorters(e *Env) {
	R := e.R
	R.Rule = "slices of 0-40 nodes drawn (with repetition) from a pool of real nodes of three managers (repeated IDs across managers, repeated ports on different loopback hosts, last-error state set through the accessor and, for some, by real failed calls), " +
		"plus four nodes connected to live servers (connected and with a last error on record); sorted by every sequence of 1-4 of the provided keys (ID, Port, LastNodeError) incl. repeats, one sorting in eight with a sorter that was used before while another sorter was created and used in between; oracle: result is a permutation of the input (multiset of pointers) and non-decreasing under the lexicographic order of the model keys; " +
		"each provided key alone is irreflexive and asymmetric on all pairs of the pool; distinct = (key sequence, multiset of (id, port, err) triples in input order)"
	R.Assume("model keys: numeric id, numeric port, LastErr() != nil")
	keys := []sortKey{
		{"ID", gorums.ID, func(a, b *gorums.RawNode) int { return cmpInt(int(a.ID()), int(b.ID())) }},
		{"Port", gorums.Port, func(a, b *gorums.RawNode) int { return cmpInt(portOf(a), portOf(b)) }},
		{"LastNodeError", gorums.LastNodeError, func(a, b *gorums.RawNode) int { return cmpInt(sgn(a.LastErr() != nil), sgn(b.LastErr() != nil)) }},
	}
	// pool: 3 managers x 10 nodes on refused (reserved) addresses; ids and ports repeat across managers / hosts
	var pool []*gorums.RawNode
	var resv []*h.Srv
	ports := []int{}
	for i := 0; i < 4; i++ {
		s, err := h.NewSrv(i, 0, "127.0.0.1:0", true)
		if err != nil {
			R.Inconc("reserve: " + err.Error())
			return
		}
		s.Stop() // keeps the port reserved, connections refused
		resv = append(resv, s)
		_, p, _ := net.SplitHostPort(s.Addr)
		pi, _ := strconv.Atoi(p)
		ports = append(ports, pi)
	}
	defer func() {
		for _, s := range resv {
			s.Release()
		}
	}()
	var mgrs []*gorums.RawManager
	for m := 0; m < 3; m++ {
		mgr := gorums.NewRawManager(gorums.WithDialTimeout(50*time.Millisecond), gorums.WithGrpcDialOptions(h.DialOpts()...))
		mgrs = append(mgrs, mgr)
		for k := 0; k < 10; k++ {
			host := fmt.Sprintf("127.0.0.%d", 1+k%3)
			addr := fmt.Sprintf("%s:%d", host, ports[(k+m)%len(ports)])
			id := uint32(1 + (k*7+m)%8) // ids repeat across managers (and differ within one)
			if _, dup := mgr.Node(id); dup {
				id += 100 * uint32(k+1)
			}
			n, err := gorums.NewRawNodeWithID(addr, id)
			if err != nil {
				R.Inconc("node: " + err.Error())
				return
			}
			if err := mgr.AddNode(n); err != nil {
				R.Inconc("AddNode: " + err.Error())
				return
			}
			pool = append(pool, n)
		}
	}
	defer func() {
		for _, m := range mgrs {
			mm := m
			t := h.Go("close", func() { mm.Close() })
			select {
			case <-t.Done:
			case <-time.After(2 * time.Second):
			}
		}
	}()
	// a fourth manager whose nodes are connected to live servers: a node may be connected and have a last error on record
	live, err := h.NewCluster(h.Options{N: 4, Block: true, DialTimeout: 2 * time.Second})
	if err != nil {
		R.Inconc("cluster: " + err.Error())
		return
	}
	defer live.Close()
	for _, n := range live.Mgr.Nodes() {
		pool = append(pool, n.RawNode)
	}
	R.Count("pool_nodes_connected_to_live_servers", 4)
	time.Sleep(100 * time.Millisecond) // real failed connects set a real last error on the nodes
	realErrs := 0
	for _, n := range pool {
		if n.LastErr() != nil {
			realErrs++
		}
	}
	R.Count("pool_nodes_with_real_connection_error", int64(realErrs))
	rng := e.Rand(19)
	setErrs := func() {
		for _, n := range pool {
			switch rng.Intn(3) {
			case 0:
				gorums.VerifSetLastErr(n, nil)
			case 1:
				gorums.VerifSetLastErr(n, errors.New("injected"))
			}
		}
	}
	desc := func(n *gorums.RawNode) string {
		return fmt.Sprintf("(%d,%d,%v)", n.ID(), portOf(n), n.LastErr() != nil)
	}
	// strict-weak-order laws per provided key, on all pairs
	lawCheck := func() {
		for _, k := range keys {
			for _, a := range pool {
				if k.less(a, a) {
					R.Violate("key-not-irreflexive:"+k.name, fmt.Sprintf("%s(a, a) is true for a=%s", k.name, desc(a)), nil)
					return
				}
				for _, b := range pool {
					ab, ba := k.less(a, b), k.less(b, a)
					if ab && ba {
						R.Violate("key-not-asymmetric:"+k.name, fmt.Sprintf("%s(a,b) and %s(b,a) both true for a=%s b=%s", k.name, k.name, desc(a), desc(b)), nil)
						return
					}
					if want := k.cmp(a, b) < 0; ab != want {
						R.Violate("key-wrong:"+k.name, fmt.Sprintf("%s(a,b)=%v but the model says %v for a=%s b=%s", k.name, ab, want, desc(a), desc(b)), nil)
						return
					}
				}
			}
			R.Count("pairs_checked."+k.name, int64(len(pool)*len(pool)))
		}
	}
	nsort := e.Pick(60000, 3000000)
	if e.Of > 1 {
		nsort /= e.Of
	}
	for it := 0; it < nsort; it++ {
		if R.NumViolations() > 5 {
			break
		}
		if it%500 == 0 {
			setErrs()
			lawCheck()
		}
		nk := 1 + rng.Intn(4)
		var ks []sortKey
		var names []string
		for i := 0; i < nk; i++ {
			k := keys[rng.Intn(len(keys))]
			ks = append(ks, k)
			names = append(names, k.name)
		}
		ln := rng.Intn(41)
		in := make([]*gorums.RawNode, ln)
		for i := range in {
			in[i] = pool[rng.Intn(len(pool))]
		}
		out := append([]*gorums.RawNode(nil), in...)
		var less []func(a, b *gorums.RawNode) bool
		for _, k := range ks {
			less = append(less, k.less)
		}
		// one sorting in eight re-uses a sorter that has sorted another slice before, with another sorter created and used in between
		reuse := it%8 == 3
		t := h.Go("sort", func() {
			srt := orderedBy(less)
			if reuse {
				srt.Sort(append([]*gorums.RawNode(nil), in...))
				other := keys[(it/8)%len(keys)].less
				orderedBy([]func(a, b *gorums.RawNode) bool{other}).Sort(append([]*gorums.RawNode(nil), in...))
			}
			srt.Sort(out)
		})
		if reuse {
			R.Count("sortings_with_a_reused_sorter", 1)
		}
		select {
		case <-t.Done:
		case <-time.After(10 * time.Second):
			R.Violate("sort-does-not-terminate", "Sort did not return within 10 s", map[string]any{"keys": names})
			return
		}
		if t.Panic != nil {
			R.Violate("sort-panics", fmt.Sprint(t.Panic), map[string]any{"keys": names})
			continue
		}
		var sb strings.Builder
		for _, n := range in {
			sb.WriteString(desc(n))
		}
		sig := strings.Join(names, ",") + "|" + sb.String()
		R.Eval(sig, ln >= 2)
		// permutation
		cnt := map[*gorums.RawNode]int{}
		for _, n := range in {
			cnt[n]++
		}
		for _, n := range out {
			cnt[n]--
		}
		perm := len(in) == len(out)
		for _, c := range cnt {
			perm = perm && c == 0
		}
		det := func() map[string]any {
			var i2, o2 []string
			for _, n := range in {
				i2 = append(i2, desc(n))
			}
			for _, n := range out {
				o2 = append(o2, desc(n))
			}
			return map[string]any{"keys": names, "input(id,port,hasErr)": i2, "output": o2}
		}
		if !perm {
			R.Violate("not-a-permutation", "sorted slice is not a permutation of the input", det())
			continue
		}
		model := func(a, b *gorums.RawNode) int {
			for _, k := range ks {
				if c := k.cmp(a, b); c != 0 {
					return c
				}
			}
			return 0
		}
		for i := 1; i < len(out); i++ {
			if model(out[i-1], out[i]) > 0 {
				R.Violate("not-ordered:"+strings.Join(dedupe(names), ","), fmt.Sprintf("result of OrderedBy(%s) is not ordered lexicographically at position %d: %s before %s", strings.Join(names, ", "), i, desc(out[i-1]), desc(out[i])), det())
				break
			}
		}
		if it < 3 {
			R.Sample(det())
		}
		R.Seen("key_sequences", strings.Join(names, ","))
	}
	_ = sort.Ints
	runSortersUnconnected(e, keys)
}

// runSortersUnconnected: nodes that have no connection machinery behind them - the nodes of a manager created with
// WithNoConnect, and nodes made with NewRawNode / NewRawNodeWithID that no manager has adopted (yet) - are nodes like any other
// to a sorter: they have an id, a port and no last error. Sorting slices that contain them, by any key sequence, must give an
// ordered permutation as well (a panic inside a key is the violation `sort-panics-on-unconnected-nodes`).
func runSortersUnconnected(e *Env, keys []sortKey) {
	R := e.R
	rng := e.Rand(1919)
	var pool []*gorums.RawNode
	mgr := gorums.NewRawManager(gorums.WithNoConnect())
	var addrs []string
	for k := 0; k < 6; k++ {
		addrs = append(addrs, fmt.Sprintf("127.0.0.%d:%d", 1+k%3, 9100+k%2))
	}
	if _, err := gorums.NewRawConfiguration(mgr, gorums.WithNodeList(addrs)); err != nil {
		R.Inconc("unconnected manager: " + err.Error())
		return
	}
	pool = append(pool, mgr.Nodes()...)
	for k := 0; k < 4; k++ {
		var n *gorums.RawNode
		var err error
		if k%2 == 0 {
			n, err = gorums.NewRawNode(fmt.Sprintf("127.0.0.3:%d", 9100+k))
		} else {
			n, err = gorums.NewRawNodeWithID(fmt.Sprintf("127.0.0.1:%d", 9100+k), uint32(k))
		}
		if err != nil {
			R.Inconc("standalone node: " + err.Error())
			return
		}
		pool = append(pool, n)
	}
	R.Count("pool_nodes_never_connected", int64(len(pool)))
	// the model: never connected = no last error
	model := []sortKey{keys[0], keys[1], {"LastNodeError", gorums.LastNodeError, func(a, b *gorums.RawNode) int { return 0 }}}
	desc := func(n *gorums.RawNode) string { return fmt.Sprintf("(%d,%d,unconnected)", n.ID(), portOf(n)) }
	nsort := e.Pick(2000, 50000)
	if e.Of > 1 {
		nsort /= e.Of
	}
	for it := 0; it < nsort; it++ {
		if R.NumViolations() > 5 {
			return
		}
		nk := 1 + rng.Intn(3)
		var ks []sortKey
		var names []string
		var less []func(a, b *gorums.RawNode) bool
		for i := 0; i < nk; i++ {
			k := model[rng.Intn(len(model))]
			ks = append(ks, k)
			names = append(names, k.name)
			less = append(less, k.less)
		}
		ln := 2 + rng.Intn(12)
		in := make([]*gorums.RawNode, ln)
		for i := range in {
			in[i] = pool[rng.Intn(len(pool))]
		}
		out := append([]*gorums.RawNode(nil), in...)
		var lastErrs []error
		t := h.Go("sort-unconnected", func() {
			orderedBy(less).Sort(out)
			for _, n := range in {
				lastErrs = append(lastErrs, n.LastErr())
			}
		})
		<-t.Done
		det := func() map[string]any {
			var i2, o2 []string
			for _, n := range in {
				i2 = append(i2, desc(n))
			}
			for _, n := range out {
				o2 = append(o2, desc(n))
			}
			return map[string]any{"keys": names, "input": i2, "output": o2, "nodes": "6 nodes of a WithNoConnect manager, 4 nodes no manager has adopted"}
		}
		if t.Panic != nil {
			R.Violate("sort-panics-on-unconnected-nodes", "sorting (or asking LastErr of) nodes that were never connected panics: "+strings.SplitN(fmt.Sprint(t.Panic), "\n", 2)[0], det())
			return
		}
		var sb strings.Builder
		for _, n := range in {
			sb.WriteString(desc(n))
		}
		R.Eval("unconnected|"+strings.Join(names, ",")+"|"+sb.String(), true)
		R.Count("sortings_of_unconnected_nodes", 1)
		for _, le := range lastErrs {
			if le != nil {
				R.Violate("unconnected-node-has-error", "a node that was never connected reports a last error: "+le.Error(), det())
				return
			}
		}
		cnt := map[*gorums.RawNode]int{}
		for _, n := range in {
			cnt[n]++
		}
		for _, n := range out {
			cnt[n]--
		}
		for _, c := range cnt {
			if c != 0 {
				R.Violate("not-a-permutation", "sorted slice of unconnected nodes is not a permutation of the input", det())
				return
			}
		}
		for i := 1; i < len(out); i++ {
			c := 0
			for _, k := range ks {
				if c = k.cmp(out[i-1], out[i]); c != 0 {
					break
				}
			}
			if c > 0 {
				R.Violate("not-ordered:"+strings.Join(dedupe(names), ","), fmt.Sprintf("result of OrderedBy(%s) on unconnected nodes is not ordered at position %d: %s before %s", strings.Join(names, ", "), i, desc(out[i-1]), desc(out[i])), det())
				return
			}
		}
		if it == 0 {
			R.Sample(det())
		}
	}
}

func dedupe(s []string) []string {
	seen := map[string]bool{}
	var out []string
	for _, x := range s {
		if !seen[x] {
			seen[x] = true
			out = append(out, x)
		}
	}
	sort.Strings(out)
	return out
}

func cmpInt(a, b int) int {
	switch {
	case a < b:
		return -1
	case a > b:
		return 1
	}
	return 0
}

// orderedBy calls gorums.OrderedBy with 1-4 keys (its parameter type is unexported, so no slice can be passed).
func orderedBy(l []func(a, b *gorums.RawNode) bool) *gorums.MultiSorter {
	switch len(l) {
	case 1:
		return gorums.OrderedBy(l[0])
	case 2:
		return gorums.OrderedBy(l[0], l[1])
	case 3:
		return gorums.OrderedBy(l[0], l[1], l[2])
	default:
		return gorums.OrderedBy(l[0], l[1], l[2], l[3])
	}
}
