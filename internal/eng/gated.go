package eng

import (
	"context"
	"errors"
	"fmt"
	"math/rand"
	"regexp"
	"runtime"
	"sort"
	"strconv"
	"strings"
	"sync"
	"sync/atomic"
	"time"

	"verif/internal/gen/puppet"
	"verif/internal/h"

	"github.com/relab/gorums"
	"google.golang.org/grpc/codes"
)

// manualCtx is a context whose end the harness triggers; Err is Canceled or DeadlineExceeded.
type manualCtx struct {
	done chan struct{}
	err  atomic.Value
	once sync.Once
}

func newManualCtx() *manualCtx { return &manualCtx{done: make(chan struct{})} }

func (m *manualCtx) Deadline() (time.Time, bool) { return time.Time{}, false }
func (m *manualCtx) Done() <-chan struct{}       { return m.done }
func (m *manualCtx) Value(any) any               { return nil }
func (m *manualCtx) Err() error {
	if e := m.err.Load(); e != nil {
		return e.(error)
	}
	return nil
}
func (m *manualCtx) end(err error) {
	m.once.Do(func() { m.err.Store(err); close(m.done) })
}

// QFKind selects the harness quorum function.
type QFKind struct {
	Kind string // "threshold", "named", "parity", "never"
	K    int    // threshold, or index of the named node
}

func (q QFKind) String() string { return fmt.Sprintf("%s/%d", q.Kind, q.K) }

// GScenario is one gated quorum-call case.
type GScenario struct {
	Variant  string   `json:"variant"`
	N        int      `json:"n"`
	Acts     []string `json:"acts"`  // per node index: reply / error:<code> / silent / skip
	Order    []int    `json:"order"` // release order (node indices, only reply/error nodes)
	QF       string   `json:"qf"`
	CancelAt int      `json:"cancel_at"` // -1: never; k: end the context before the k-th release (k == len(order): after all)
	Deadline bool     `json:"deadline"`
	Burst    bool     `json:"burst,omitempty"` // all gates are opened at once (answers arrive as a burst, in an order the harness does not control)

	acts  []Act
	codes []codes.Code
	skip  []bool
	qf    QFKind
}

type gatedResult struct {
	Scenario GScenario `json:"scenario"`
	Arrival  []uint32  `json:"arrival_order_seen_by_qf"`
	Invs     int       `json:"qf_invocations"`
	Outcome  string    `json:"outcome"`
	ErrText  string    `json:"error_text,omitempty"`
}

var qcErrRe = regexp.MustCompile(`^quorum call error: (.*) \(errors: (\d+), replies: (\d+)\)`)
var nodeErrRe = regexp.MustCompile(`(?m)^\tnode (\d+): (.*)$`)

type parsedQCErr struct {
	Cause   string
	Errors  int
	Replies int
	Nodes   map[uint32][]string
	Lines   int
}

func parseQCErr(s string) (parsedQCErr, bool) {
	m := qcErrRe.FindStringSubmatch(s)
	if m == nil {
		return parsedQCErr{}, false
	}
	p := parsedQCErr{Cause: m[1], Nodes: map[uint32][]string{}}
	p.Errors, _ = strconv.Atoi(m[2])
	p.Replies, _ = strconv.Atoi(m[3])
	for _, nm := range nodeErrRe.FindAllStringSubmatch(s, -1) {
		id, _ := strconv.ParseUint(nm[1], 10, 32)
		p.Nodes[uint32(id)] = append(p.Nodes[uint32(id)], nm[2])
		p.Lines++
	}
	return p, true
}

func genScenario(rng *rand.Rand, n int, variants []string) GScenario {
	sc := GScenario{Variant: variants[rng.Intn(len(variants))], N: n, CancelAt: -1}
	sc.acts = make([]Act, n)
	sc.codes = make([]codes.Code, n)
	sc.skip = make([]bool, n)
	pn := IsPN(sc.Variant)
	for i := 0; i < n; i++ {
		switch x := rng.Intn(10); {
		case x < 6:
			sc.acts[i] = ActReply
		case x < 8:
			sc.acts[i] = ActError
			sc.codes[i] = codes.Code(1 + rng.Intn(16))
		default:
			sc.acts[i] = ActSilent
		}
		if pn && rng.Intn(5) == 0 {
			sc.skip[i] = true
		}
	}
	if pn && rng.Intn(25) == 0 {
		for i := range sc.skip {
			sc.skip[i] = true
		}
	}
	for _, i := range rng.Perm(n) {
		if !sc.skip[i] && sc.acts[i] != ActSilent {
			sc.Order = append(sc.Order, i)
		}
	}
	switch x := rng.Intn(10); {
	case x < 6:
		sc.qf = QFKind{"threshold", 1 + rng.Intn(n+1)}
	case x < 7:
		sc.qf = QFKind{"named", rng.Intn(n)}
	case x < 8:
		sc.qf = QFKind{"parity", 0}
	default:
		sc.qf = QFKind{"never", 0}
	}
	if rng.Intn(4) == 0 {
		sc.CancelAt = rng.Intn(len(sc.Order) + 1)
		sc.Deadline = rng.Intn(2) == 0
	} else if rng.Intn(5) == 0 {
		sc.Burst = true
	}
	sc.fill()
	return sc
}

func (sc *GScenario) fill() {
	sc.Acts = make([]string, sc.N)
	for i := range sc.acts {
		switch {
		case sc.skip[i]:
			sc.Acts[i] = "skip"
		case sc.acts[i] == ActError:
			sc.Acts[i] = "error:" + sc.codes[i].String()
		default:
			sc.Acts[i] = sc.acts[i].String()
		}
	}
	sc.QF = sc.qf.String()
}

func (sc *GScenario) nontrivial() bool {
	if sc.N < 2 {
		return false
	}
	kinds := map[string]bool{}
	for _, a := range sc.Acts {
		kinds[strings.SplitN(a, ":", 2)[0]] = true
	}
	sorted := sort.IntsAreSorted(sc.Order)
	return len(kinds) >= 2 || !sorted || sc.CancelAt >= 0
}

// gatedEngine runs gated quorum-call scenarios and applies the C01 and C02 oracles.
type gatedEngine struct {
	e        *Env
	dir      *Director
	mu       sync.Mutex
	clusters map[int]*h.Cluster
	refs     map[*h.Cluster]int
	retired  map[*h.Cluster]bool
	hangSigs map[string]bool
	skipped  atomic.Int64
	stopped  bool
}

// cluster returns the shared cluster of size n (creating it) and takes a reference.
func (g *gatedEngine) rcvErrs(cl *h.Cluster) int64 {
	if g.e.Hooks == nil {
		return 0
	}
	var t int64
	for _, id := range cl.IDs {
		t += g.e.Hooks.Count("rcv.err", id) + g.e.Hooks.Count("wat.beforeCancel", id)
	}
	return t
}

// recentReset reports whether a stream-failure event was seen on the cluster within d.
func (g *gatedEngine) recentReset(cl *h.Cluster, d time.Duration) bool {
	if g.e.Hooks == nil {
		return false
	}
	for _, id := range cl.IDs {
		for _, p := range []string{"rcv.err", "wat.beforeCancel", "con.broken"} {
			if t := g.e.Hooks.Last(p, id); !t.IsZero() && time.Since(t) < d {
				return true
			}
		}
	}
	return false
}

func (g *gatedEngine) clusterKey(key, n int) (*h.Cluster, error) {
	g.mu.Lock()
	defer g.mu.Unlock()
	if c := g.clusters[key]; c != nil && !g.retired[c] {
		g.refs[c]++
		return c, nil
	}
	c, err := h.NewCluster(h.Options{N: n, Block: true, DialTimeout: 2 * time.Second})
	if err != nil {
		return nil, err
	}
	c.SetBehaviour(g.dir.Behaviour)
	g.clusters[key] = c
	g.refs[c] = 1
	if key < 100 {
		g.background(c)
	}
	return c, nil
}

// background keeps single-node traffic (RPC, unicast) flowing on the shared cluster while gated calls run,
// so that replies to other calls are in flight on the same nodes all the time.
func (g *gatedEngine) background(c *h.Cluster) {
	go func() {
		rng := rand.New(rand.NewSource(int64(len(c.IDs))))
		for k := 0; ; k++ {
			g.mu.Lock()
			dead := g.retired[c] || g.stopped
			g.mu.Unlock()
			if dead {
				return
			}
			i := rng.Intn(len(c.IDs))
			tok := h.NewToken()
			req := &puppet.Req{Call: tok, Seq: tok, Kind: 98}
			ctx, cancel := context.WithTimeout(context.Background(), 30*time.Second)
			if k%3 == 0 {
				c.Node(i).Uni(context.Background(), req, gorums.WithNoSendWaiting())
			} else {
				rep, err := c.Node(i).RPC(ctx, req)
				g.e.R.Count("background_rpcs", 1)
				if err == nil && (rep.GetCall() != tok || rep.GetNode() != c.IDs[i]) {
					g.viol("C01", "background-rpc-foreign-reply", fmt.Sprintf("a unary RPC running beside the quorum calls returned the reply to call %d from node %d", rep.GetCall(), rep.GetNode()), nil)
				}
			}
			cancel()
			time.Sleep(300 * time.Microsecond)
		}
	}()
}

func (g *gatedEngine) cluster(n int) (*h.Cluster, error) {
	g.mu.Lock()
	defer g.mu.Unlock()
	if c := g.clusters[n]; c != nil && !g.retired[c] {
		g.refs[c]++
		return c, nil
	}
	c, err := h.NewCluster(h.Options{N: n, Block: true, DialTimeout: 2 * time.Second})
	if err != nil {
		return nil, err
	}
	c.SetBehaviour(g.dir.Behaviour)
	g.clusters[n] = c
	g.refs[c] = 1
	return c, nil
}

// release drops a reference; a retired cluster is closed with its last reference.
func (g *gatedEngine) release(c *h.Cluster) {
	g.mu.Lock()
	g.refs[c]--
	cl := g.refs[c] == 0 && g.retired[c]
	g.mu.Unlock()
	if cl {
		go c.Close()
	}
}

// discard retires a cluster: no new scenario gets it; it is closed once idle.
func (g *gatedEngine) discard(n int, c *h.Cluster) {
	g.mu.Lock()
	for k, x := range g.clusters {
		if x == c {
			delete(g.clusters, k)
		}
	}
	g.retired[c] = true
	g.mu.Unlock()
}

func (g *gatedEngine) closeAll() {
	g.mu.Lock()
	g.stopped = true
	cs := g.clusters
	g.clusters = map[int]*h.Cluster{}
	g.mu.Unlock()
	for _, c := range cs {
		c.Close()
	}
}

// viol reports a violation of clause for property prop; clauses of the other
// property of this engine are only counted.
func (g *gatedEngine) viol(prop, sig, what string, detail any) {
	if prop == g.e.Prop {
		g.e.R.Violate(sig, what, detail)
	} else {
		g.e.R.Count("foreign."+prop+"."+sig, 1)
	}
}

func (g *gatedEngine) knownHang(sig string) bool {
	g.mu.Lock()
	defer g.mu.Unlock()
	return g.hangSigs[sig]
}

func (g *gatedEngine) markHang(sig string) {
	g.mu.Lock()
	g.hangSigs[sig] = true
	g.mu.Unlock()
}

// run executes one scenario. slot selects the cluster pool: scenarios that end
// their context use a pool private to the worker (key = slot), because gorums
// resets a node's stream when a context ends during a write, which fails the
// other calls pending on that node; all other scenarios share pool 0 and
// overlap on the same nodes.
func (g *gatedEngine) run(sc GScenario, slot int) {
	e := g.e
	R := e.R
	key := sc.N
	if sc.CancelAt >= 0 {
		key = sc.N + 100*(slot+1)
	}
	cl, err := g.clusterKey(key, sc.N)
	if err != nil {
		R.Inconc("cluster: " + err.Error())
		return
	}
	defer g.release(cl)
	// a stream of this cluster was reset just before this case (by the context end of the previous case): let its
	// consequences (connection errors for requests written to the dying stream) pass before starting
	for k := 0; k < 40 && g.recentReset(cl, 150*time.Millisecond); k++ {
		time.Sleep(10 * time.Millisecond)
	}
	rcvErr0 := g.rcvErrs(cl)
	async := strings.HasPrefix(sc.Variant, "Async")
	token := h.NewToken()
	req := &puppet.Req{Call: token, Seq: token, Kind: 7, Pad: []byte("gated")}
	skipIDs := map[uint32]bool{}
	targeted := 0
	for i := 0; i < sc.N; i++ {
		if sc.skip[i] {
			skipIDs[cl.IDs[i]] = true
		} else {
			targeted++
		}
	}
	var f func(*puppet.Req, uint32) *puppet.Req
	if IsPN(sc.Variant) {
		f = PN(skipIDs)
	}
	if targeted == 0 && g.knownHang("zero-target") {
		g.skipped.Add(1)
		R.Count("skipped_after_hang", 1)
		return
	}
	expDigest := map[uint32]uint64{}
	plans := make([]*Plan, sc.N)
	for i := 0; i < sc.N; i++ {
		id := cl.IDs[i]
		if sc.skip[i] {
			continue
		}
		if f != nil {
			expDigest[id] = h.Digest(f(req, id))
		} else {
			expDigest[id] = h.Digest(req)
		}
		plans[i] = g.dir.Set(token, id, &Plan{Act: sc.acts[i], Code: sc.codes[i], Msg: fmt.Sprintf("scripted failure %d", i)})
	}
	defer g.dir.Drop(token)
	named := uint32(0)
	if sc.qf.Kind == "named" {
		named = cl.IDs[sc.qf.K]
	}
	mon := &h.CallMon{Token: token, Orig: req, Notify: make(chan int, 64)}
	mon.Decide = func(inv *h.Inv) (bool, int) {
		switch sc.qf.Kind {
		case "threshold":
			return len(inv.Keys) >= sc.qf.K, len(inv.Keys)
		case "named":
			_, ok := inv.Reps[named]
			return ok, len(inv.Keys)
		case "parity":
			var x uint64
			for _, r := range inv.Reps {
				x ^= r.Serial
			}
			return x&1 == 1, len(inv.Keys)
		}
		return false, len(inv.Keys)
	}
	cl.QS.Register(mon)
	defer cl.QS.Unregister(token)

	ctx := newManualCtx()
	var out Outcome
	var fut Future
	var doneBefore, doneAfter bool
	var pollOut [2]Outcome
	var pollPanic [2]any
	var polled [2]bool
	var pwg sync.WaitGroup
	stopPoll := make(chan struct{})
	defer close(stopPoll)
	started := make(chan struct{})
	task := h.Go("call:"+sc.Variant, func() {
		if async {
			fut = StartAsync(cl.Cfg, sc.Variant, ctx, req, f)
			doneBefore = fut.Done()
			// pollers: spin on Done() and call Get() the moment it reports true; what they obtain must be the call's outcome
			for k := range pollOut {
				pwg.Add(1)
				go func(k int) {
					defer pwg.Done()
					defer func() {
						if r := recover(); r != nil {
							pollPanic[k] = r
						}
					}()
					for !fut.Done() {
						select {
						case <-stopPoll:
							return
						default:
							runtime.Gosched()
						}
					}
					pollOut[k] = fut.Get()
					polled[k] = true
				}(k)
			}
			close(started)
			out = fut.Get()
			doneAfter = fut.Done()
			pwg.Wait()
		} else {
			close(started)
			out = CallQC(cl.Cfg, sc.Variant, ctx, req, f)
		}
	})
	finished := func() bool {
		select {
		case <-task.Done:
			return true
		default:
			return false
		}
	}
	hangViolation := func(where string, hi h.HangInfo) {
		sig := "hang:" + where + ":" + hi.Sig
		if targeted == 0 {
			sig = "zero-target"
			g.markHang(sig)
		}
		g.viol("C02", sig, "call keeps waiting although its deciding condition holds ("+where+")",
			map[string]any{"scenario": sc, "state": hi.State, "frame": hi.Frame, "stack": hi.Stack, "others": hi.Others})
		ctx.end(context.Canceled)
		if targeted > 0 {
			g.discard(sc.N, cl)
		}
	}
	// wait for every targeted handler to be parked at its gate
	for i, p := range plans {
		if p == nil {
			continue
		}
		select {
		case <-p.Entered():
		case <-time.After(e.W):
			if g.rcvErrs(cl) != rcvErr0 {
				// the stream was reset (by the context end of the previous case on this private cluster) after this call's request
				// was written: gorums reports a connection error for the node, which is outside this engine's script
				R.Count("disturbed_by_stream_reset", 1)
				ctx.end(context.Canceled)
				for _, p := range plans {
					if p != nil {
						p.Open()
					}
				}
				return
			}
			R.Inconc(fmt.Sprintf("request of call %d never reached server %d (foreign: delivery); parked library goroutines: %v", token, i, h.LibSummary(h.Dump(), 0)))
			ctx.end(context.Canceled)
			g.discard(sc.N, cl)
			return
		}
	}
	<-started
	if async && doneBefore && targeted > 0 {
		g.viol("C02", "async-done-early", "Async.Done() reported true before any node answered", sc)
	}
	released := map[int]bool{}
	errorsReleased := 0
	repliesReleased := 0
	cancelled := false
	var ctxErr error
	endCtx := func() {
		ctxErr = context.Canceled
		if sc.Deadline {
			ctxErr = context.DeadlineExceeded
		}
		ctx.end(ctxErr)
		cancelled = true
	}
	lastWasObservedReply := false
	if sc.Burst {
		// open every gate at once; then wait until the call ended or every successful reply was shown to the quorum function
		for _, i := range sc.Order {
			plans[i].Open()
			released[i] = true
			if plans[i].Act == ActReply {
				repliesReleased++
			} else {
				errorsReleased++
			}
		}
		deadline := time.After(e.W)
	burst:
		for mon.NumInvs() < repliesReleased {
			select {
			case <-mon.Notify:
			case <-task.Done:
				break burst
			case <-time.After(2 * time.Millisecond):
			case <-deadline:
				break burst
			}
		}
		sc.Order = sc.Order[:0:0] // nothing left to release one by one
		for i := range released {
			sc.Order = append(sc.Order, i)
		}
		sort.Ints(sc.Order)
	}
	for pos, i := range sc.Order {
		if sc.Burst {
			break
		}
		if sc.CancelAt == pos {
			endCtx()
			break
		}
		if finished() {
			break
		}
		p := plans[i]
		id := cl.IDs[i]
		before := int64(0)
		if e.Hooks != nil {
			before = e.Hooks.Count("rcv.afterRoute", id)
		}
		p.Open()
		released[i] = true
		if p.Act == ActReply {
			repliesReleased++
			// wait until the quorum function has seen this node's reply, or the call ended
			lastWasObservedReply = false
			deadline := time.After(e.W)
		wait:
			for {
				for _, inv := range mon.Invs() {
					if _, ok := inv.Reps[id]; ok {
						lastWasObservedReply = true
						break wait
					}
				}
				select {
				case <-mon.Notify:
				case <-task.Done:
					break wait
				case <-deadline:
					if g.rcvErrs(cl) != rcvErr0 {
						// the stream was reset: the reply was lost with it and gorums reported a connection error for the node instead
						R.Count("disturbed_by_stream_reset", 1)
						ctx.end(context.Canceled)
						for _, p := range plans {
							if p != nil {
								p.Open()
							}
						}
						return
					}
					hi := h.Await(task, 0)
					if hi.Verdict == h.Hung {
						hangViolation("released reply never shown to the quorum function", hi)
						return
					}
					if hi.Verdict == h.Inconclusive {
						R.Inconc("reply delivery wait: " + hi.State)
						ctx.end(context.Canceled)
						g.discard(sc.N, cl)
						return
					}
					break wait
				}
			}
		} else {
			errorsReleased++
			lastWasObservedReply = false
			if e.Hooks != nil {
				e.Hooks.WaitCount("rcv.afterRoute", id, before+1, 20*time.Millisecond)
			} else {
				time.Sleep(3 * time.Millisecond)
			}
		}
	}
	allAnswered := len(released) == targeted // every targeted node released as reply or error
	if sc.CancelAt == len(sc.Order) && !cancelled {
		// end the context after everything was released
		if !(allAnswered && lastWasObservedReply) {
			// give an unobservable trailing error a moment; both outcomes are accepted below anyway
			time.Sleep(2 * time.Millisecond)
		}
		endCtx()
	}
	invs := mon.Invs()
	quorumIdx := -1
	for _, inv := range invs {
		if inv.Quorum {
			quorumIdx = inv.Idx
			break
		}
	}
	mustReturn := quorumIdx >= 0 || allAnswered || cancelled
	disturbed := func() bool { return g.rcvErrs(cl) != rcvErr0 }
	if !mustReturn {
		// silent nodes remain: the call must still be waiting
		time.Sleep(3 * time.Millisecond)
		if finished() && !disturbed() {
			g.viol("C02", "returned-early", "call returned although no quorum was reported, targeted nodes are still silent and the context is live",
				map[string]any{"scenario": sc, "err": fmt.Sprint(out.Err)})
		}
		// now let the silent nodes answer after all, one by one, so that the call ends by quorum or exhaustion
		for i, p := range plans {
			if p == nil || released[i] || finished() {
				continue
			}
			p.Act = ActReply
			sc.acts[i] = ActReply
			p.Open()
			released[i] = true
			repliesReleased++
			id := cl.IDs[i]
			deadline := time.After(e.W)
		wait2:
			for {
				for _, inv := range mon.Invs() {
					if _, ok := inv.Reps[id]; ok {
						break wait2
					}
				}
				select {
				case <-mon.Notify:
				case <-task.Done:
					break wait2
				case <-deadline:
					break wait2
				}
			}
		}
		allAnswered = len(released) == targeted
	}
	hi := h.Await(task, e.W)
	switch hi.Verdict {
	case h.Hung:
		hangViolation("after deciding event", hi)
		return
	case h.Inconclusive:
		R.Inconc("await call: " + hi.State)
		ctx.end(context.Canceled)
		g.discard(sc.N, cl)
		return
	}
	if task.Panic != nil {
		g.viol(e.Prop, "panic", "call panicked", map[string]any{"scenario": sc, "panic": task.Panic})
		return
	}
	if disturbed() {
		// a stream of this cluster failed or was reset during the case (a context that ends during a write makes
		// gorums reset the stream): connection errors are then legitimate answers and the scripted expectations do not apply.
		R.Count("disturbed_by_stream_reset", 1)
		for _, p := range plans {
			if p != nil {
				p.Act = ActReply
				p.Open()
			}
		}
		return
	}
	// ---- observations complete; oracles ----
	invs = mon.Invs()
	quorumIdx = -1
	for _, inv := range invs {
		if inv.Quorum {
			quorumIdx = inv.Idx
			break
		}
	}
	var arrival []uint32
	prev := map[uint32]bool{}
	det := func(extra string) map[string]any {
		m := map[string]any{"scenario": sc, "invocations": invs, "error": fmt.Sprint(out.Err), "note": extra}
		if e.Hooks != nil {
			var hc []string
			for i, id := range cl.IDs {
				hc = append(hc, fmt.Sprintf("node %d: rcv.err=%d wat.beforeCancel=%d con.broken=%d rec.locked=%d lastErr=%v", id, e.Hooks.Count("rcv.err", id), e.Hooks.Count("wat.beforeCancel", id),
					e.Hooks.Count("con.broken", id), e.Hooks.Count("rec.locked", id), cl.Node(i).LastErr()))
			}
			m["channel_events"] = hc
		}
		return m
	}
	replyNodes := map[uint32]bool{}
	for i := 0; i < sc.N; i++ {
		if !sc.skip[i] && sc.acts[i] == ActReply && released[i] {
			replyNodes[cl.IDs[i]] = true
		}
	}
	firstRep := map[uint32]h.RepV{}
	for k, inv := range invs {
		if inv.Overlap != 1 {
			g.viol("C01", "qf-overlap", "quorum function invoked concurrently for one call", det(""))
		}
		if !inv.SameReq {
			g.viol("C01", "qf-request-identity", "quorum function did not receive the caller's original request", det(""))
		}
		if inv.Method != sc.Variant {
			g.viol("C01", "qf-wrong-method", "quorum function of another method invoked: "+inv.Method, det(""))
		}
		if len(inv.NilRep) > 0 {
			g.viol("C01", "qf-nil-reply", "reply set contains a nil reply", det(""))
		}
		if len(inv.Keys) != len(prev)+1 {
			g.viol("C01", "qf-growth", fmt.Sprintf("invocation %d has %d keys, previous had %d", k, len(inv.Keys), len(prev)), det(""))
		}
		for p := range prev {
			if _, ok := inv.Reps[p]; !ok {
				g.viol("C01", "qf-shrink", "reply set lost a node", det(""))
			}
		}
		for _, id := range inv.Keys {
			r := inv.Reps[id]
			if !replyNodes[id] {
				g.viol("C01", "qf-foreign-node", fmt.Sprintf("reply set has an entry for node %d which did not (yet) reply successfully", id), det(""))
				continue
			}
			if r.Call != token {
				g.viol("C01", "qf-foreign-reply", "reply set holds a reply to another call", det(""))
			}
			if r.Node != id {
				g.viol("C01", "qf-wrong-node", fmt.Sprintf("reply filed under node %d was produced by node %d", id, r.Node), det(""))
			}
			if r.Digest != expDigest[id] {
				g.viol("C01", "qf-wrong-request", fmt.Sprintf("node %d answered a request other than the one meant for it", id), det(""))
			}
			if fr, ok := firstRep[id]; ok && fr != r {
				g.viol("C01", "qf-reply-changed", "reply of a node changed between invocations", det(""))
			}
			firstRep[id] = r
			if !prev[id] {
				arrival = append(arrival, id)
				prev[id] = true
			}
		}
		if quorumIdx >= 0 && k > quorumIdx {
			g.viol("C01", "qf-after-quorum", "quorum function invoked again after it reported a quorum", det(""))
		}
	}
	if len(invs) > repliesReleased {
		g.viol("C01", "qf-too-many", "more invocations than successful replies", det(""))
	}
	outcome := ""
	switch {
	case out.Err == nil:
		outcome = "success"
		if quorumIdx < 0 {
			g.viol("C01", "success-without-quorum", "call succeeded although the quorum function never reported a quorum", det(""))
			g.viol("C02", "success-without-quorum", "call succeeded although the quorum function never reported a quorum", det(""))
		} else {
			last := invs[len(invs)-1]
			var want any = last.RetRep
			if IsCustom(sc.Variant) {
				want = last.RetAgg
			}
			if out.Val() != want || !last.Quorum {
				g.viol("C01", "wrong-value", "call did not return the very value its quorum function returned with the quorum", det(fmt.Sprintf("got %p want %p", out.Val(), want)))
			}
		}
	default:
		if out.Val() != nil {
			g.viol("C01", "value-with-error", "call returned a value together with an error", det(""))
		}
		if quorumIdx >= 0 {
			g.viol("C02", "quorum-but-error", "quorum function reported a quorum but the call failed", det(""))
		}
		pe, ok := parseQCErr(out.Err.Error())
		if !ok {
			g.viol("C02", "unparsable-error", "call failed with an error that is not a quorum call error: "+out.Err.Error(), det(""))
			break
		}
		isInc := errors.Is(out.Err, gorums.Incomplete)
		isCtx := ctxErr != nil && errors.Is(out.Err, ctxErr)
		switch {
		case isInc:
			outcome = "incomplete"
			if !allAnswered {
				g.viol("C02", "incomplete-early", "Incomplete although not every targeted node has answered", det(""))
			}
			if pe.Errors+pe.Replies != targeted {
				g.viol("C02", "incomplete-sum", fmt.Sprintf("errors %d + replies %d != targeted %d", pe.Errors, pe.Replies, targeted), det(""))
			}
			if pe.Replies != len(invs) {
				g.viol("C02", "incomplete-replies", fmt.Sprintf("reported replies %d != quorum function invocations %d", pe.Replies, len(invs)), det(""))
			}
			if pe.Errors != errorsReleased || pe.Lines != pe.Errors {
				g.viol("C02", "incomplete-errors", fmt.Sprintf("reported errors %d (lines %d) != failing nodes %d", pe.Errors, pe.Lines, errorsReleased), det(""))
			}
			if len(invs) != repliesReleased {
				g.viol("C01", "qf-missed-reply", "call ended by exhaustion but the quorum function was not invoked for every successful reply", det(""))
			}
		case isCtx:
			outcome = "ctx:" + ctxErr.Error()
			if !cancelled {
				g.viol("C02", "ctx-error-without-ctx-end", "context error although the context is live", det(""))
			}
			if pe.Replies != len(invs) {
				g.viol("C02", "ctx-replies", fmt.Sprintf("reported replies %d != quorum function invocations %d", pe.Replies, len(invs)), det(""))
			}
			if pe.Errors > errorsReleased || pe.Lines != pe.Errors {
				g.viol("C02", "ctx-errors", fmt.Sprintf("reported errors %d (lines %d) exceed failing nodes released %d", pe.Errors, pe.Lines, errorsReleased), det(""))
			}
		default:
			outcome = "other"
			g.viol("C02", "other-outcome", "call ended with an error that is neither Incomplete nor the context's error: "+out.Err.Error(), det(""))
		}
		// which outcomes were admissible?
		if isInc && cancelled && !allAnswered {
			g.viol("C02", "incomplete-on-cancel", "Incomplete reported for a cancelled call with unanswered nodes", det(""))
		}
		if isCtx && allAnswered && sc.CancelAt == len(sc.Order) && lastWasObservedReply && errorsReleased == 0 && quorumIdx < 0 {
			g.viol("C02", "ctx-after-exhaustion", "context error although the call was exhausted before the context ended", det(""))
		}
		for id, lines := range pe.Nodes {
			idx := cl.Index(id)
			if idx < 0 || sc.skip[idx] || sc.acts[idx] != ActError || !released[idx] {
				g.viol("C02", "error-for-wrong-node", fmt.Sprintf("node error reported for node %d which did not fail", id), det(""))
				continue
			}
			if len(lines) != 1 {
				g.viol("C02", "error-duplicated", fmt.Sprintf("node %d reported %d times", id, len(lines)), det(""))
			}
			want := fmt.Sprintf("rpc error: code = %s desc = scripted failure %d", sc.codes[idx], idx)
			if lines[0] != want {
				g.viol("C02", "error-text", fmt.Sprintf("node %d: got %q want %q", id, lines[0], want), det(""))
			}
		}
	}
	if async {
		if !doneAfter {
			g.viol("C02", "async-not-done", "Async.Done() false after Get returned", det(""))
		}
		for k := range pollOut {
			if pollPanic[k] != nil {
				g.viol("C02", "async-get-panics", fmt.Sprintf("Get called right after Done() reported true panicked: %.200v", pollPanic[k]), det(""))
			} else if polled[k] {
				R.Count("async.gets_right_after_done_turned_true", 1)
				if pollOut[k].Val() != out.Val() || fmt.Sprint(pollOut[k].Err) != fmt.Sprint(out.Err) {
					g.viol("C02", "async-get-unstable", fmt.Sprintf("Get called right after Done() reported true yielded (%v, %v), a later Get yielded (%v, %v)", pollOut[k].Val(), pollOut[k].Err, out.Val(), out.Err), det(""))
				}
			}
		}
		var wg sync.WaitGroup
		res := make([]Outcome, 3)
		for i := range res {
			wg.Add(1)
			go func(i int) { defer wg.Done(); res[i] = fut.Get() }(i)
		}
		wg.Wait()
		for _, r := range res {
			if r.Val() != out.Val() || fmt.Sprint(r.Err) != fmt.Sprint(out.Err) {
				g.viol("C02", "async-get-unstable", "Async.Get yielded different outcomes on repeated invocation", det(""))
			}
		}
		if !fut.Done() {
			g.viol("C02", "async-not-done", "Async.Done() false after completion", det(""))
		}
	}
	if orph := cl.QS.Orphans(); len(orph) > 0 {
		g.viol("C01", "qf-orphan", "quorum function invoked with a request no call issued: "+orph[0], nil)
	}
	// teardown: let silent and unreleased handlers reply late (after the call ended)
	for _, p := range plans {
		if p != nil {
			p.Act = ActReply
			p.Open()
		}
	}
	sig := fmt.Sprintf("%s|%d|%v|%v|%s|%d|%v|%v", sc.Variant, sc.N, sc.Acts, arrival, sc.QF, sc.CancelAt, sc.Deadline, sc.Burst)
	if sc.Burst {
		R.Count("burst_scenarios", 1)
	}
	R.Eval(sig, sc.nontrivial())
	R.Count("qf_invocations", int64(len(invs)))
	R.Count("outcome."+outcome, 1)
	R.Seen("variants", sc.Variant)
	R.Seen("arrival_orders", fmt.Sprint(len(arrival), ":", orderShape(arrival, cl.IDs)))
	if sc.CancelAt >= 0 {
		R.Count("ctx_end_positions", 1)
	}
	R.Sample(gatedResult{Scenario: sc, Arrival: arrival, Invs: len(invs), Outcome: outcome, ErrText: errText(out.Err)})
}

func errText(err error) string {
	if err == nil {
		return ""
	}
	return err.Error()
}

// orderShape maps node ids to their index so that orders are comparable across clusters.
func orderShape(arrival []uint32, ids []uint32) string {
	var b strings.Builder
	for _, a := range arrival {
		for i, id := range ids {
			if id == a {
				fmt.Fprintf(&b, "%d", i)
			}
		}
	}
	return b.String()
}

var qcVariants = []string{"QC", "QCPN", "QCCustom", "QCCombo", "Async", "AsyncPN", "AsyncCustom", "AsyncCombo"}

// RunGated is the engine behind C01 and C02.
func RunGated(e *Env) {
	e.R.Rule = "seeded gated scenarios: variant x cluster size x per-node script (reply/error/silent/skip) x gate release order x quorum function x context-end position; " +
		"C01 also: two managers calling the same servers in lock step (equal message ids in flight on both connections of a server): every reply shown to a quorum function carries its own call's token; C02 also: storms (8 goroutines of calls needing every node while another goroutine keeps breaking the nodes' streams from the sender side with messages over the send limit): Incomplete only when the nodes shown to the quorum function plus the nodes named in the error cover the configuration, errors + replies = n; " +
		"distinct = (variant, n, scripts, arrival order observed by the QF, QF, ctx-end position); non-trivial = n>=2 and (>=2 script kinds or permuted order or ctx end)"
	e.R.Assume("replies are stamped by puppet handlers with (call token, node id, request digest); the oracle trusts those stamps and the QF invocation log recorded inside the harness QuorumSpec")
	e.R.Assume("an error's arrival at the client is not observable through the API; the oracle accepts every error count consistent with the errors released so far")
	g := &gatedEngine{e: e, dir: NewDirector(), clusters: map[int]*h.Cluster{}, refs: map[*h.Cluster]int{}, retired: map[*h.Cluster]bool{}, hangSigs: map[string]bool{}}
	defer g.closeAll()
	rng := e.Rand(1)
	// exhaustive grid for small n
	var cases []GScenario
	maxGrid := e.Pick(2, 4)
	for n := 1; n <= maxGrid; n++ {
		cases = append(cases, gridScenarios(n, e.Thorough())...)
	}
	e.R.Count("grid_cases", int64(len(cases)))
	nrand := e.Pick(8000, 600000)
	for i := 0; i < nrand; i++ {
		n := 1 + rng.Intn(7)
		cases = append(cases, genScenario(rng, n, qcVariants))
	}
	// zero-target and single-target cases are always present
	for _, v := range []string{"QCPN", "AsyncPN", "QCCombo", "AsyncCombo"} {
		for n := 1; n <= 3; n++ {
			sc := GScenario{Variant: v, N: n, CancelAt: -1, qf: QFKind{"threshold", 1}}
			sc.acts = make([]Act, n)
			sc.codes = make([]codes.Code, n)
			sc.skip = make([]bool, n)
			for i := range sc.skip {
				sc.skip[i] = true
			}
			sc.fill()
			cases = append(cases, sc)
		}
	}
	// shard over children
	var mine []GScenario
	for i, c := range cases {
		if e.Of <= 1 || i%e.Of == e.Batch {
			mine = append(mine, c)
		}
	}
	conc := 8
	work := make(chan GScenario)
	var wg sync.WaitGroup
	for w := 0; w < conc; w++ {
		wg.Add(1)
		go func(slot int) {
			defer wg.Done()
			for sc := range work {
				g.run(sc, slot)
			}
		}(w)
	}
	for _, sc := range mine {
		if e.R.NumViolations() > 50 {
			break
		}
		work <- sc
	}
	close(work)
	wg.Wait()
	// connection reset while a request is queued (own proxied clusters)
	nreset := e.Pick(60, 2000)
	var rwg sync.WaitGroup
	rsem := make(chan struct{}, 8)
	for i := 0; i < nreset; i++ {
		if e.Of > 1 && i%e.Of != e.Batch {
			continue
		}
		if e.R.NumViolations() > 50 {
			break
		}
		rr := rand.New(rand.NewSource(rng.Int63()))
		rsem <- struct{}{}
		rwg.Add(1)
		go func(i int) {
			defer rwg.Done()
			defer func() { <-rsem }()
			g.runResetWhileQueued(i, rr)
		}(i)
	}
	rwg.Wait()
	if e.Prop == "C02" {
		RunStorm(e, "C02")
	}
	if e.Prop == "C01" {
		for rep := 0; rep < e.Pick(4, 40); rep++ {
			if e.Of > 1 && rep%e.Of != e.Batch {
				continue
			}
			runTwoManagers(e, rep)
		}
		lrng := e.Rand(2121)
		for i := 0; i < e.Pick(60, 2000); i++ {
			rr := rand.New(rand.NewSource(lrng.Int63()))
			if e.Of > 1 && i%e.Of != e.Batch {
				continue
			}
			if e.R.NumViolations() > 50 {
				break
			}
			g.runLeftoverRequest(i, rr)
		}
	}
}

// runTwoManagers: two managers (two client connections per server, both numbering their messages from 1) call the same
// servers in lock step, so that equal message ids are in flight on both connections of a server at the same time. Every reply
// shown to a quorum function carries the token of that call's own request.
func runTwoManagers(e *Env, rep int) {
	R := e.R
	n := 2 + rep%3
	cl, err := h.NewCluster(h.Options{N: n, Block: true, DialTimeout: 2 * time.Second})
	if err != nil {
		R.Inconc("cluster: " + err.Error())
		return
	}
	defer cl.Close()
	cl.SetBehaviour(func(c *h.HCall) (*puppet.Rep, error) {
		if c.Req.GetSeq()%3 == 0 {
			c.Ctx.Release()
		}
		return c.Rep(0), nil
	})
	qsB := &h.QSpec{}
	mb := puppet.NewManager(cl.MgrOptions()...)
	defer func() { go mb.Close() }()
	cfgB, err := mb.NewConfiguration(gorums.WithNodeMap(cl.NodeMap()), qsB)
	if err != nil {
		R.Inconc("second manager: " + err.Error())
		return
	}
	type side struct {
		cfg *puppet.Configuration
		qs  *h.QSpec
	}
	sides := []side{{cl.Cfg, cl.QS}, {cfgB, qsB}}
	var foreign atomic.Int64
	var first atomic.Pointer[string]
	rounds := e.Pick(150, 600)
	for r := 0; r < rounds && foreign.Load() == 0; r++ {
		var start, done sync.WaitGroup
		start.Add(1)
		for si, sd := range sides {
			done.Add(1)
			go func(si int, sd side) {
				defer done.Done()
				tok := h.NewToken()
				req := &puppet.Req{Call: tok, Seq: uint64(r), Kind: 1}
				sd.qs.Register(&h.CallMon{Token: tok, Orig: req, Decide: func(inv *h.Inv) (bool, int) {
					for id, rp := range inv.Reps {
						if rp.Call != tok || rp.Node != id {
							foreign.Add(1)
							msg := fmt.Sprintf("manager %d, round %d: the reply set of call %d holds under node %d a reply to call %d produced by node %d", si, r, tok, id, rp.Call, rp.Node)
							first.CompareAndSwap(nil, &msg)
						}
					}
					return len(inv.Keys) >= n, len(inv.Keys)
				}})
				defer sd.qs.Unregister(tok)
				ctx, cancel := context.WithTimeout(context.Background(), 3*time.Second)
				defer cancel()
				start.Wait()
				if r%2 == 0 {
					CallQC(sd.cfg, "QC", ctx, req, nil)
				} else {
					StartAsync(sd.cfg, "Async", ctx, req, nil).Get()
				}
			}(si, sd)
		}
		start.Done()
		done.Wait()
	}
	if foreign.Load() > 0 {
		R.Violate("qf-foreign-reply", "two managers on the same servers: "+*first.Load(), map[string]any{"n": n, "foreign_replies": foreign.Load()})
	}
	R.Eval(fmt.Sprintf("two-managers-in-lock-step|n=%d|%d", n, rep), true)
	R.Count("two_manager_rounds(equal message ids in flight on both connections)", int64(rounds))
}

// runResetWhileQueued: one node's connection is reset while its request is still queued (sender held at a hook); the request
// then goes out on the re-created stream and the node's handler answers. The node must contribute exactly one answer to the
// call - a connection error or its reply - and if it is reported as failed the quorum function must never see an entry for it.
func (g *gatedEngine) runResetWhileQueued(idx int, rng *rand.Rand) {
	e := g.e
	R := e.R
	if e.Hooks == nil {
		return
	}
	n := 2 + rng.Intn(3)
	variant := []string{"QC", "QCPN", "QCCustom", "Async", "AsyncCombo"}[rng.Intn(5)]
	cl, err := h.NewCluster(h.Options{N: n, Block: true, DialTimeout: 2 * time.Second, Proxies: true})
	if err != nil {
		R.Inconc("cluster: " + err.Error())
		return
	}
	defer cl.Close()
	cl.SetBehaviour(g.dir.Behaviour)
	x := rng.Intn(n)
	never := rng.Intn(2) == 0
	token := h.NewToken()
	req := &puppet.Req{Call: token, Seq: token, Kind: 7, Pad: []byte("reset")}
	var f func(*puppet.Req, uint32) *puppet.Req
	if IsPN(variant) {
		f = PN(nil)
	}
	exp := map[uint32]uint64{}
	plans := make([]*Plan, n)
	for i := 0; i < n; i++ {
		if f != nil {
			exp[cl.IDs[i]] = h.Digest(f(req, cl.IDs[i]))
		} else {
			exp[cl.IDs[i]] = h.Digest(req)
		}
		plans[i] = g.dir.Set(token, cl.IDs[i], &Plan{Act: ActReply})
	}
	defer g.dir.Drop(token)
	mon := &h.CallMon{Token: token, Orig: req, Decide: func(inv *h.Inv) (bool, int) { return !never && len(inv.Keys) >= n, len(inv.Keys) }}
	cl.QS.Register(mon)
	hold := e.Hooks.Hold("snd.dequeued", cl.IDs[x], 0, 5*time.Second)
	var out Outcome
	ctx, cancel := context.WithTimeout(context.Background(), 30*time.Second)
	defer cancel()
	task := h.Go("call:"+variant, func() {
		if strings.HasPrefix(variant, "Async") {
			out = StartAsync(cl.Cfg, variant, ctx, req, f).Get()
		} else {
			out = CallQC(cl.Cfg, variant, ctx, req, f)
		}
	})
	steered := false
	select {
	case <-hold.Reached():
		before := e.Hooks.Count("rcv.err", cl.IDs[x])
		cl.Proxies[x].Reset()
		e.Hooks.WaitCount("rcv.err", cl.IDs[x], before+1, 2*time.Second)
		time.Sleep(10 * time.Millisecond) // the receiver re-creates the stream
		steered = true
	case <-time.After(2 * time.Second):
	}
	e.Hooks.Disarm(hold)
	for i := 0; i < n; i++ {
		w := e.W
		if i == x {
			w = 500 * time.Millisecond // its request may have been failed instead of sent
		}
		select {
		case <-plans[i].Entered():
		case <-time.After(w):
		}
		plans[i].Open()
	}
	hi := h.Await(task, e.W+2*time.Second)
	if hi.Verdict == h.Hung {
		g.viol("C02", "hang:reset-while-queued:"+hi.Sig, "call does not complete after a connection reset while its request was queued", map[string]any{"stack": hi.Stack, "others": hi.Others})
		return
	} else if hi.Verdict == h.Inconclusive {
		R.Inconc("await: " + hi.State)
		return
	}
	invs := mon.Invs()
	det := map[string]any{"variant": variant, "n": n, "reset_node_index": x, "invocations": invs, "error": errText(out.Err), "steered": steered}
	inQF := false
	for _, inv := range invs {
		for id, r := range inv.Reps {
			if r.Call != token || r.Node != id || r.Digest != exp[id] {
				g.viol("C01", "qf-foreign-reply", "reply set holds a reply that is not this node's answer to this call's request (after a connection reset)", det)
				return
			}
			if id == cl.IDs[x] {
				inQF = true
			}
		}
	}
	reported := false
	if out.Err != nil {
		if pe, ok := parseQCErr(out.Err.Error()); ok {
			for id, lines := range pe.Nodes {
				if id != cl.IDs[x] {
					g.viol("C02", "error-for-wrong-node", fmt.Sprintf("node %d did not fail but is reported: %v", id, lines), det)
					return
				}
				reported = true
				if len(lines) > 1 {
					g.viol("C02", "error-duplicated", fmt.Sprintf("node %d reported %d times", id, len(lines)), det)
				}
			}
			if pe.Errors+pe.Replies != n {
				g.viol("C02", "incomplete-sum", fmt.Sprintf("errors %d + replies %d != %d nodes", pe.Errors, pe.Replies, n), det)
			}
		}
	}
	if reported && inQF {
		g.viol("C01", "qf-entry-for-failed-node", fmt.Sprintf("the quorum function was shown an entry for node %d, which the call reports as failed (connection reset while the request was queued)", cl.IDs[x]), det)
	}
	R.Eval(fmt.Sprintf("reset|%s|%d|%d|%v|%d", variant, n, x, never, idx), true)
	if steered {
		R.Count("reset_while_queued.steered", 1)
	}
	if reported {
		R.Count("reset_while_queued.node_reported_failed", 1)
	} else if inQF {
		R.Count("reset_while_queued.node_replied", 1)
	}
}

// gridScenarios enumerates, for cluster size n: scripts in {reply,error,silent}^n x all release orders x thresholds 1..n+1
// (x ctx-end positions when full) for the QC and Async variants.
func gridScenarios(n int, full bool) []GScenario {
	var out []GScenario
	variants := []string{"QC", "Async"}
	if full {
		variants = []string{"QC", "QCCustom", "Async", "AsyncCustom"}
	}
	total := 1
	for i := 0; i < n; i++ {
		total *= 3
	}
	for code := 0; code < total; code++ {
		acts := make([]Act, n)
		c := code
		var rel []int
		for i := 0; i < n; i++ {
			acts[i] = Act(c % 3)
			c /= 3
			if acts[i] != ActSilent {
				rel = append(rel, i)
			}
		}
		for _, p := range allPerms(len(rel)) {
			order := make([]int, len(rel))
			for i, x := range p {
				order[i] = rel[x]
			}
			for k := 1; k <= n+1; k++ {
				cancels := []int{-1}
				if full {
					for pos := 0; pos <= len(order); pos++ {
						cancels = append(cancels, pos)
					}
				}
				for _, ca := range cancels {
					for _, v := range variants {
						sc := GScenario{Variant: v, N: n, Order: order, CancelAt: ca, Deadline: (code+k)%2 == 0, qf: QFKind{"threshold", k}}
						sc.acts = acts
						sc.codes = make([]codes.Code, n)
						for i := range sc.codes {
							sc.codes[i] = codes.Code(1 + (code+i)%16)
						}
						sc.skip = make([]bool, n)
						sc.fill()
						out = append(out, sc)
					}
				}
			}
		}
	}
	return out
}
