package eng

import (
	"context"
	"fmt"
	"runtime"
	"time"

	"verif/internal/gen/puppet"
	"verif/internal/h"

	"github.com/relab/gorums"
)

// runResidueDirected is the directed part of the C18 engine. Its calls use context.Background(): nothing but the answers of
// the targeted nodes (or the failure of their connections) can end them and release what the library holds for them.
//
// (1) every call kind x {no node skipped, one node skipped by the per-node function} x {quorum reachable, quorum out of reach}:
// once every targeted server has answered (server-side log), the per-node router count and the number of goroutines of the
// library's per-call functions go back to their values from before the call (polled up to W) - whether or not the caller has
// collected the outcome.
// (2) a node that has been unreachable since the manager was created (non-blocking dial): 40 further calls that fail on it leave the
// process-wide number of goroutines where it was after the first 8 such calls (every failed call re-dials; a bounded slack
// covers goroutines of the transport that come and go).
func runResidueDirected(e *Env) {
	R := e.R
	idx := 0
	for _, m := range allMethods {
		for _, skipOne := range []bool{false, true} {
			for _, reachable := range []bool{true, false} {
				idx++
				if e.Of > 1 && idx%e.Of != e.Batch {
					continue
				}
				if skipOne && !IsPN(m) {
					continue
				}
				if R.NumViolations() > 6 {
					return
				}
				residueAfterAnswers(e, m, skipOne, reachable, uint(idx%2)*4)
			}
		}
	}
	for rep := 0; rep < e.Pick(4, 24); rep++ {
		if e.Of > 1 && rep%e.Of != e.Batch {
			continue
		}
		if R.NumViolations() > 6 {
			return
		}
		residueUnreachableNode(e, rep)
	}
	for rep := 0; rep < e.Pick(4, 24); rep++ {
		if e.Of > 1 && rep%e.Of != e.Batch {
			continue
		}
		if R.NumViolations() > 6 {
			return
		}
		residueAfterClose(e, rep)
	}
	for rep := 0; rep < e.Pick(2, 8); rep++ {
		if e.Of > 1 && rep%e.Of != e.Batch {
			continue
		}
		if R.NumViolations() > 6 {
			return
		}
		residueHeapUnreachable(e, rep)
		residueHeap(e, rep, false)
		residueHeapOversize(e, rep)
	}
}

func residueAfterAnswers(e *Env, m string, skipOne, reachable bool, buffer uint) {
	R := e.R
	const n = 3
	cl, err := h.NewCluster(h.Options{N: n, Block: true, DialTimeout: 2 * time.Second, SendBuffer: buffer})
	if err != nil {
		R.Inconc("cluster: " + err.Error())
		return
	}
	defer cl.Close()
	stream := len(m) >= 10 && m[:10] == "CorrStream"
	cl.SetBehaviour(func(c *h.HCall) (*puppet.Rep, error) {
		if c.Send != nil {
			for i := 0; i < 3; i++ {
				if c.Send(c.Rep(uint32(i))) != nil {
					break
				}
			}
			return nil, nil
		}
		return c.Rep(0), nil
	})
	routers := func() int {
		t := 0
		for _, nd := range cl.Mgr.Nodes() {
			t += gorums.VerifRouterCount(nd.RawNode)
		}
		return t
	}
	// warm-up: one call of the same kind that completes, so that connection-level goroutines exist before the baseline
	{
		tok := h.NewToken()
		req := &puppet.Req{Call: tok, Seq: tok, Kind: 18}
		cl.QS.Register(&h.CallMon{Token: tok, Orig: req, Decide: func(inv *h.Inv) (bool, int) { return len(inv.Keys) >= n, len(inv.Keys) }})
		ctx, cancel := context.WithTimeout(context.Background(), 5*time.Second)
		t := h.Go("c18:warm-up", func() {
			if w := Invoke(cl, cl.Cfg, &Op{Method: "QC"}, ctx, req); w != nil {
				w()
			}
		})
		h.Await(t, e.W)
		cancel()
	}
	time.Sleep(5 * time.Millisecond)
	base, _ := libCallGoroutines()
	baseR := routers()
	tok := h.NewToken()
	req := &puppet.Req{Call: tok, Seq: tok, Kind: 18}
	op := &Op{Method: m, Node: 1}
	targeted := n
	if skipOne {
		op.Skip = []int{2}
		targeted = n - 1
	}
	single := m == "RPC" || m == "Uni" || m == "Uni2"
	if single {
		targeted = 1
	}
	th := targeted
	if !reachable {
		th = n + 1 // more replies than there are nodes: the call can only end by exhaustion
	}
	cl.QS.Register(&h.CallMon{Token: tok, Orig: req, Decide: func(inv *h.Inv) (bool, int) { return len(inv.Keys) >= th && !stream, len(inv.Keys) }})
	// (a stream call is never 'done' here: it ends when all of its streams have ended, i.e. it stays open; its residue is
	// judged after the context ends below)
	ctx, cancel := context.WithCancel(context.Background())
	defer cancel()
	t := h.Go("c18:"+m, func() {
		if w := Invoke(cl, cl.Cfg, op, ctx, req); w != nil {
			w()
		}
	})
	// wait until every targeted server has handled the request
	handled := func() int {
		k := 0
		for _, s := range cl.Srvs {
			for _, en := range s.Log() {
				if en.Call == tok {
					k++
					break
				}
			}
		}
		return k
	}
	dl := time.Now().Add(e.W)
	for handled() < targeted && time.Now().Before(dl) {
		time.Sleep(time.Millisecond)
	}
	if handled() < targeted {
		R.Inconc(fmt.Sprintf("%s: only %d of %d targeted servers saw the request (foreign: delivery)", m, handled(), targeted))
		return
	}
	if stream {
		// the servers' streams have ended without a 'done': the call stays open by design until its context ends
		time.Sleep(20 * time.Millisecond)
		cancel()
	}
	// quiescence: every targeted node has answered
	var gs, rs int
	var ex []string
	dl = time.Now().Add(e.W)
	for {
		gs, ex = libCallGoroutines()
		rs = routers()
		if (gs <= base && rs <= baseR) || time.Now().After(dl) {
			break
		}
		time.Sleep(5 * time.Millisecond)
	}
	det := map[string]any{"method": m, "one_node_skipped": skipOne, "quorum_reachable": reachable, "send_buffer": buffer, "targeted": targeted}
	if gs > base {
		det["goroutines"] = ex
		det["stacks"] = h.LibStacks(h.Dump(), 0)
		R.Violate("call-goroutines-left", fmt.Sprintf("%s (one node skipped: %v, quorum reachable: %v): every targeted node has answered, yet %d goroutine(s) of per-call library functions remain: %v", m, skipOne, reachable, gs-base, ex), det)
	}
	if rs > baseR {
		R.Violate("routers-left", fmt.Sprintf("%s (one node skipped: %v, quorum reachable: %v): every targeted node has answered, yet %d response router(s) remain", m, skipOne, reachable, rs-baseR), det)
	}
	cancel()
	if hi := h.Await(t, e.W); hi.Verdict == h.Hung {
		R.Count("directed.calls_not_returning(judged by C02/C08)", 1)
	}
	R.Eval(fmt.Sprintf("directed|%s|skip=%v|reachable=%v|buffer=%d", m, skipOne, reachable, buffer), true)
	R.Count("directed.calls_judged_after_all_targeted_nodes_answered", 1)
}

func residueUnreachableNode(e *Env, rep int) {
	R := e.R
	const n = 3
	cl, err := h.NewCluster(h.Options{N: n, Block: false, DialTimeout: 200 * time.Millisecond, SendBuffer: uint(rep%2) * 4, Down: []int{rep % n}})
	if err != nil {
		R.Inconc("cluster: " + err.Error())
		return
	}
	defer cl.Close()
	down := rep % n
	call := func(k int) {
		tok := h.NewToken()
		req := &puppet.Req{Call: tok, Seq: tok, Kind: 18}
		cl.QS.Register(&h.CallMon{Token: tok, Orig: req, Decide: func(inv *h.Inv) (bool, int) { return len(inv.Keys) >= n, len(inv.Keys) }})
		ctx, cancel := context.WithTimeout(context.Background(), 3*time.Second)
		defer cancel()
		m := []string{"RPC", "QC", "Uni", "Async", "Multi", "Corr"}[k%6]
		t := h.Go("c18:unreachable:"+m, func() {
			if w := Invoke(cl, cl.Cfg, &Op{Method: m, Node: down}, ctx, req); w != nil {
				w()
			}
		})
		h.Await(t, e.W+3*time.Second)
	}
	settle := func(atMost int) int {
		dl := time.Now().Add(e.W)
		g := runtime.NumGoroutine()
		for g > atMost && time.Now().Before(dl) {
			time.Sleep(20 * time.Millisecond)
			g = runtime.NumGoroutine()
		}
		return g
	}
	for k := 0; k < 8; k++ {
		call(k)
	}
	time.Sleep(300 * time.Millisecond)
	g1 := runtime.NumGoroutine()
	const more, slack = 40, 24
	for k := 0; k < more; k++ {
		call(k)
	}
	g2 := settle(g1 + slack)
	if g2 > g1+slack {
		R.Violate("goroutines-grow-with-completed-calls", fmt.Sprintf("%d completed calls involving a node that has been unreachable since creation (non-blocking dial) raised the number of live goroutines from %d to %d (%.1f per call)", more, g1, g2, float64(g2-g1)/more),
			map[string]any{"send_buffer": rep % 2 * 4, "down_node_index": down, "library_goroutines": h.LibSummary(h.Dump(), 0)})
	}
	R.Max("max.goroutine_growth_over_40_calls_to_an_unreachable_node", int64(g2-g1))
	R.Eval(fmt.Sprintf("directed|unreachable-since-creation|%d", rep), true)
}

// residueAfterClose: (3) calls made on a manager that has been closed end at once with an error (C12 judges that); here: however
// many of them are made, of whatever kind, the closed nodes keep no response router and no per-call goroutine for them.
func residueAfterClose(e *Env, rep int) {
	R := e.R
	const n = 3
	cl, err := h.NewCluster(h.Options{N: n, Block: true, DialTimeout: 2 * time.Second, SendBuffer: uint(rep%2) * 4})
	if err != nil {
		R.Inconc("cluster: " + err.Error())
		return
	}
	defer cl.Close()
	nodes := cl.Mgr.Nodes()
	routers := func() int {
		t := 0
		for _, nd := range nodes {
			t += gorums.VerifRouterCount(nd.RawNode)
		}
		return t
	}
	call := func(k int, timeout time.Duration) bool {
		tok := h.NewToken()
		req := &puppet.Req{Call: tok, Seq: tok, Kind: 18}
		cl.QS.Register(&h.CallMon{Token: tok, Orig: req, Decide: func(inv *h.Inv) (bool, int) { return len(inv.Keys) >= n, len(inv.Keys) }})
		defer cl.QS.Unregister(tok)
		ctx, cancel := context.WithTimeout(context.Background(), timeout)
		defer cancel()
		m := []string{"RPC", "QC", "Async", "Corr", "Uni", "Multi", "CorrStream", "QCPN", "AsyncCombo"}[k%9]
		t := h.Go("c18:after-close:"+m, func() {
			if w := Invoke(cl, cl.Cfg, &Op{Method: m, Node: k % n}, ctx, req); w != nil {
				w()
			}
		})
		return h.Await(t, e.W+timeout).Verdict == h.Returned
	}
	for k := 0; k < 9; k++ {
		call(k, 5*time.Second)
	}
	time.Sleep(5 * time.Millisecond)
	base, _ := libCallGoroutines()
	tc := h.Go("c18:close", func() { cl.Mgr.Close() })
	if hi := h.Await(tc, e.W); hi.Verdict != h.Returned {
		R.Inconc("Close did not return (judged by C12)")
		return
	}
	const K = 45
	for k := 0; k < K; k++ {
		if !call(k, 2*time.Second) {
			R.Inconc("a call on a closed manager did not return (judged by C12)")
			return
		}
	}
	var gs, rs int
	var ex []string
	dl := time.Now().Add(e.W)
	for {
		gs, ex = libCallGoroutines()
		rs = routers()
		if (gs <= base && rs == 0) || time.Now().After(dl) {
			break
		}
		time.Sleep(5 * time.Millisecond)
	}
	det := map[string]any{"calls_after_close": K, "send_buffer": rep % 2 * 4}
	if rs > 0 {
		R.Violate("routers-left", fmt.Sprintf("%d calls of all kinds made on a closed manager (each returned) left %d response router(s) on its nodes (%.1f per call)", K, rs, float64(rs)/K), det)
	}
	if gs > base {
		det["goroutines"] = ex
		R.Violate("call-goroutines-left", fmt.Sprintf("%d calls made on a closed manager left %d goroutine(s) of per-call library functions: %v", K, gs-base, ex), det)
	}
	R.Eval(fmt.Sprintf("directed|after-close|%d", rep), true)
	R.Count("directed.calls_made_on_a_closed_manager", K)
}

// residueHeapUnreachable: (4) "the amount of per-call bookkeeping stays bounded by what is currently outstanding", observed as the
// process's live heap: calls to a node that has been unreachable since the manager was created (non-blocking dial) each fail and
// return; after a warm-up, three windows of 1000 such calls each are run and the number of live heap objects is read after two
// garbage collections at each window's end. A library that keeps something per completed call shows a steady growth of at least
// one object per call in every window (measured on the pinned tree before repair 4.1 in each of four windows; after it 0.2,
// 0.1, 0.03, 0.04); the verdict is "violated" only if *both* of the last two windows grow by more than 1.3 objects per call.
func residueHeapUnreachable(e *Env, rep int) { residueHeap(e, rep, true) }

// residueHeap with unreachable=false: the same heap monitor over completed calls of six kinds on healthy nodes.
func residueHeap(e *Env, rep int, unreachable bool) {
	R := e.R
	var downList []int
	what := "healthy nodes"
	if unreachable {
		downList = []int{rep % 2}
		what = "a node unreachable since creation (non-blocking dial)"
	}
	cl, err := h.NewCluster(h.Options{N: 2, Block: !unreachable, DialTimeout: 200 * time.Millisecond, Down: downList, SendBuffer: uint(rep%2) * 4})
	if err != nil {
		R.Inconc("cluster: " + err.Error())
		return
	}
	defer cl.Close()
	down := rep % 2
	call := func(k int) {
		tok := h.NewToken()
		req := &puppet.Req{Call: tok, Seq: tok, Kind: 18}
		ctx, cancel := context.WithTimeout(context.Background(), 2*time.Second)
		defer cancel()
		mod := 3
		if !unreachable {
			mod = 6
		}
		switch k % mod {
		case 0:
			cl.Node(down).RPC(ctx, req)
		case 1:
			cl.Node(down).Uni(ctx, req)
		default:
			cl.QS.Register(&h.CallMon{Token: tok, Orig: req, Decide: func(inv *h.Inv) (bool, int) { return len(inv.Keys) >= 2, len(inv.Keys) }})
			switch k % mod {
			case 2:
				cl.Cfg.QC(ctx, req)
			case 3:
				cl.Cfg.Async(ctx, req).Get()
			case 4:
				<-cl.Cfg.Corr(ctx, req).Done()
			default:
				cl.Cfg.Multi(ctx, req)
			}
			cl.QS.Unregister(tok)
		}
	}
	objs := func() int64 {
		runtime.GC()
		time.Sleep(40 * time.Millisecond)
		runtime.GC()
		var m runtime.MemStats
		runtime.ReadMemStats(&m)
		return int64(m.HeapObjects)
	}
	run := func(k int) bool {
		t := h.Go("c18:heap", func() {
			for i := 0; i < k; i++ {
				call(i)
			}
		})
		return h.Await(t, e.W+60*time.Second).Verdict == h.Returned
	}
	if !run(300) {
		R.Inconc("warm-up calls to an unreachable node did not return")
		return
	}
	const per = 1000
	prev := objs()
	var growth []float64
	for w := 0; w < 3; w++ {
		if !run(per) {
			R.Inconc("calls to an unreachable node did not return")
			return
		}
		for _, sv := range cl.Srvs {
			sv.ResetLog() // (the harness's own record of handled requests)
		}
		o := objs()
		growth = append(growth, float64(o-prev)/per)
		prev = o
	}
	if unreachable {
		R.Max("max.heap_objects_per_completed_call_to_an_unreachable_node(x100)", int64(growth[2]*100))
	} else {
		R.Max("max.heap_objects_per_completed_call_on_healthy_nodes(x100)", int64(growth[2]*100))
	}
	if growth[1] > 1.3 && growth[2] > 1.3 {
		R.Violate("heap-grows-with-completed-calls", fmt.Sprintf("completed calls on %s leave something behind: live heap objects after GC grew by %.2f, %.2f and %.2f per call over three windows of %d completed calls", what, growth[0], growth[1], growth[2], per),
			map[string]any{"node_index": down, "per_window_growth_in_objects_per_call": growth, "goroutines": runtime.NumGoroutine()})
	}
	R.Eval(fmt.Sprintf("directed|heap|unreachable=%v|%d", unreachable, rep), true)
	R.Count("directed.completed_calls_under_the_heap_monitor", 3*per)
}
