package eng

import (
	"context"
	"fmt"
	"runtime"
	"time"

	"verif/internal/gen/puppet"
	"verif/internal/h"

	"github.com/relab/gorums"
	"google.golang.org/grpc"
)

// residueHeapOversize: the heap monitor of residueHeap over calls whose write fails: every other call carries a message larger
// than the connection's send limit (16 KiB), so its write fails, gorums marks the stream broken, fails what is pending and
// re-creates the stream for the next call. All of these calls return. The servers are "pure" (no connect callback, no
// connection record in the harness), so that what stays on the heap is the library's. Verdict as in residueHeap: violated only if
// both of the last two windows of 1000 completed calls grow by more than 1.3 live heap objects per call (measured on the pinned
// tree before the repair: 2.15, 2.12, 2.00; after it: 0.11, 0.01, 0.06).
func residueHeapOversize(e *Env, rep int) {
	R := e.R
	cl, err := h.NewCluster(h.Options{N: 2, Block: true, Pure: true, DialTimeout: time.Second, SendBuffer: uint(rep%2) * 4,
		ExtraMgr: []gorums.ManagerOption{gorums.WithGrpcDialOptions(grpc.WithDefaultCallOptions(grpc.MaxCallSendMsgSize(16 << 10)))}})
	if err != nil {
		R.Inconc("cluster: " + err.Error())
		return
	}
	defer cl.Close()
	big := make([]byte, 32<<10)
	call := func(k int) {
		tok := h.NewToken()
		req := &puppet.Req{Call: tok, Seq: tok, Kind: 18}
		if k%2 == 0 {
			req.Pad = big
		}
		ctx, cancel := context.WithTimeout(context.Background(), 2*time.Second)
		defer cancel()
		switch k % 6 {
		case 0, 1:
			cl.Node(rep%2).RPC(ctx, req)
		case 2, 3:
			cl.Node(rep%2).Uni(ctx, req)
		default:
			cl.QS.Register(&h.CallMon{Token: tok, Orig: req, Decide: func(inv *h.Inv) (bool, int) { return len(inv.Keys) >= 2, len(inv.Keys) }})
			cl.Cfg.QC(ctx, req)
			cl.QS.Unregister(tok)
		}
	}
	objs := func() int64 {
		runtime.GC()
		time.Sleep(40 * time.Millisecond)
		runtime.GC()
		var m runtime.MemStats
		runtime.ReadMemStats(&m)
		return int64(m.HeapObjects)
	}
	run := func(k int) bool {
		t := h.Go("c18:heap-oversize", func() {
			for i := 0; i < k; i++ {
				call(i)
			}
		})
		return h.Await(t, e.W+60*time.Second).Verdict == h.Returned
	}
	if !run(300) {
		R.Inconc("warm-up calls with failing writes did not return")
		return
	}
	const per = 1000
	prev := objs()
	var growth []float64
	for w := 0; w < 3; w++ {
		if !run(per) {
			R.Inconc("calls with failing writes did not return")
			return
		}
		for _, sv := range cl.Srvs {
			sv.ResetLog()
		}
		o := objs()
		growth = append(growth, float64(o-prev)/per)
		prev = o
	}
	R.Max("max.heap_objects_per_completed_call_with_failing_writes(x100)", int64(growth[2]*100))
	if growth[1] > 1.3 && growth[2] > 1.3 {
		R.Violate("heap-grows-with-completed-calls", fmt.Sprintf("completed calls, half of them with a write that fails (message over the send limit; the stream is re-created for the next call), leave something behind: live heap objects after GC grew by %.2f, %.2f and %.2f per call over three windows of %d completed calls", growth[0], growth[1], growth[2], per),
			map[string]any{"per_window_growth_in_objects_per_call": growth, "goroutines": runtime.NumGoroutine(), "note": "servers without connect callback; the harness keeps no per-connection record"})
	}
	R.Eval(fmt.Sprintf("directed|heap|failing-writes|%d", rep), true)
	R.Count("directed.completed_calls_under_the_heap_monitor", 3*per)
}
