package eng

import (
	"context"
	"errors"
	"fmt"
	"math/rand"
	"strings"
	"sync"
	"sync/atomic"
	"time"

	"verif/internal/gen/puppet"
	"verif/internal/h"

	"github.com/relab/gorums"
	"google.golang.org/grpc/codes"
)

// CScenario is one gated correctable case.
type CScenario struct {
	Variant  string   `json:"variant"`
	N        int      `json:"n"`
	Acts     []string `json:"acts"`
	Streams  []int    `json:"stream_replies,omitempty"` // per node, stream variants
	Order    []int    `json:"order"`                    // release order; a node index may repeat for stream replies; the last occurrence of an error node is its failure
	Levels   []int    `json:"levels"`                   // level reported at invocation i (last value repeats)
	DoneAt   int      `json:"done_at"`                  // invocation index reporting done; -1 never
	CancelAt int      `json:"cancel_at"`
	Deadline bool     `json:"deadline"`
	Burst    bool     `json:"burst,omitempty"` // all answers are let through at once and the quorum function takes its time: responses queue up behind each other

	acts  []Act
	codes []codes.Code
	skip  []bool
}

type snap struct {
	At      string `json:"at"`
	ValNil  bool   `json:"val_nil"`
	val     any
	Level   int    `json:"level"`
	Err     string `json:"err"`
	err     error
	Done    bool   `json:"done"`
	Panic   string `json:"typed_get_panic,omitempty"`
	typed   any
	TLevel  int    `json:"typed_level"`
	Watch   []bool `json:"watch_closed"`   // fresh Watch(l) for l = -1..max+1
	Persist []bool `json:"persist_closed"` // watchers created before the first reply
}

func closed(ch <-chan struct{}) bool {
	select {
	case <-ch:
		return true
	default:
		return false
	}
}

func isNilMsg(v any) bool {
	switch x := v.(type) {
	case nil:
		return true
	case *puppet.Rep:
		return x == nil
	case *puppet.Agg:
		return x == nil
	}
	return false
}

func takeSnap(at string, c Corr, maxL int, persist []<-chan struct{}) snap {
	s := snap{At: at}
	v, l, err := c.Raw()
	s.val, s.Level, s.err = v, l, err
	s.ValNil = isNilMsg(v)
	if err != nil {
		s.Err = err.Error()
	}
	o, pan := c.Get()
	if pan != nil {
		s.Panic = fmt.Sprint(pan)
	} else {
		s.typed = o.Val()
		s.TLevel = o.Level
	}
	s.Done = closed(c.Done())
	for lv := -1; lv <= maxL+1; lv++ {
		s.Watch = append(s.Watch, closed(c.Watch(lv)))
	}
	for _, p := range persist {
		s.Persist = append(s.Persist, closed(p))
	}
	return s
}

type corrEngine struct {
	g *gatedEngine
}

func genCScenario(rng *rand.Rand, n int, variants []string) CScenario {
	sc := CScenario{Variant: variants[rng.Intn(len(variants))], N: n, CancelAt: -1, DoneAt: -1}
	stream := strings.HasPrefix(sc.Variant, "CorrStream")
	pn := IsPN(sc.Variant)
	sc.acts = make([]Act, n)
	sc.codes = make([]codes.Code, n)
	sc.skip = make([]bool, n)
	sc.Streams = make([]int, n)
	var events []int
	for i := 0; i < n; i++ {
		switch x := rng.Intn(10); {
		case x < 6:
			sc.acts[i] = ActReply
		case x < 8:
			sc.acts[i] = ActError
			sc.codes[i] = codes.Code(1 + rng.Intn(16))
		default:
			sc.acts[i] = ActSilent
		}
		if pn && rng.Intn(6) == 0 {
			sc.skip[i] = true
			continue
		}
		if stream {
			// stream nodes: k gated replies, then the handler fails (error) or stays silent (never finishes)
			sc.Streams[i] = rng.Intn(4)
			if sc.acts[i] == ActReply {
				sc.acts[i] = ActError // a stream ends by the handler returning; use an error so that the end is visible to the call
				sc.codes[i] = codes.Code(1 + rng.Intn(16))
			}
			for k := 0; k < sc.Streams[i]; k++ {
				events = append(events, i)
			}
			if sc.acts[i] == ActError {
				events = append(events, i)
			}
		} else if sc.acts[i] != ActSilent {
			events = append(events, i)
		}
	}
	// random interleaving that keeps per-node order (per-node events are identical tokens, so any shuffle works)
	rng.Shuffle(len(events), func(a, b int) { events[a], events[b] = events[b], events[a] })
	sc.Order = events
	nl := 1 + rng.Intn(6)
	switch rng.Intn(5) {
	case 0: // monotone
		for i := 0; i < nl; i++ {
			sc.Levels = append(sc.Levels, i+1)
		}
	case 1: // plateaus
		for i := 0; i < nl; i++ {
			sc.Levels = append(sc.Levels, 1+i/2)
		}
	case 2: // jumps
		for i := 0; i < nl; i++ {
			sc.Levels = append(sc.Levels, 3*i+2)
		}
	case 3: // dips
		for i := 0; i < nl; i++ {
			sc.Levels = append(sc.Levels, []int{2, 1, 4, 0, 3, 5}[i%6])
		}
	default: // constant / zero
		for i := 0; i < nl; i++ {
			sc.Levels = append(sc.Levels, rng.Intn(2))
		}
	}
	if rng.Intn(3) != 0 {
		sc.DoneAt = rng.Intn(len(events) + 1)
	}
	if rng.Intn(5) == 0 {
		sc.CancelAt = rng.Intn(len(events) + 1)
		sc.Deadline = rng.Intn(2) == 0
	}
	if rng.Intn(5) == 0 {
		sc.Burst = true
		if sc.CancelAt >= 0 {
			sc.CancelAt = len(events) // (a burst has no positions in between)
		}
	}
	sc.Acts = make([]string, n)
	for i := range sc.acts {
		switch {
		case sc.skip[i]:
			sc.Acts[i] = "skip"
		case sc.acts[i] == ActError:
			sc.Acts[i] = "error:" + sc.codes[i].String()
		default:
			sc.Acts[i] = sc.acts[i].String()
		}
	}
	return sc
}

func (sc *CScenario) levelAt(i int) int {
	if i < len(sc.Levels) {
		return sc.Levels[i]
	}
	return sc.Levels[len(sc.Levels)-1]
}

func (sc *CScenario) maxLevel() int {
	m := 0
	for _, l := range sc.Levels {
		if l > m {
			m = l
		}
	}
	return m
}

// watchRacer calls Watch from its own goroutines in bursts that the scenario triggers just before it lets a reply, an error
// or the context's end through, so that registrations race with publications and with the completion.
type watchRacer struct {
	corr  Corr
	maxL  int
	kick  []chan struct{}
	stop  chan struct{}
	wg    sync.WaitGroup
	mu    sync.Mutex
	bad   string
	calls atomic.Int64
	open  [][]racedWatch // per goroutine: channels that were still open when last looked at
}

type racedWatch struct {
	lv int
	ch <-chan struct{}
}

func newWatchRacer(c Corr, maxL, goroutines int) *watchRacer {
	w := &watchRacer{corr: c, maxL: maxL, stop: make(chan struct{}), open: make([][]racedWatch, goroutines)}
	for g := 0; g < goroutines; g++ {
		k := make(chan struct{}, 1)
		w.kick = append(w.kick, k)
		w.wg.Add(1)
		go func(g int) {
			defer w.wg.Done()
			for {
				select {
				case <-w.stop:
					return
				case <-k:
				}
				for it := 0; it < 3000; it++ {
					lv := -1 + (it+g)%(w.maxL+3)
					ch := c.Watch(lv)
					w.calls.Add(1)
					// Get takes the correctable's lock: the level it shows has been published completely
					_, lvl, _ := c.Raw()
					if closed(ch) {
						continue
					}
					if lvl >= lv {
						w.mu.Lock()
						if w.bad == "" {
							w.bad = fmt.Sprintf("Watch(%d) called concurrently with the publication is still open although Get shows level %d", lv, lvl)
						}
						w.mu.Unlock()
					}
					if len(w.open[g]) < 6000 {
						w.open[g] = append(w.open[g], racedWatch{lv, ch})
					}
				}
			}
		}(g)
	}
	return w
}

func (w *watchRacer) burst() {
	for _, k := range w.kick {
		select {
		case k <- struct{}{}:
		default:
		}
	}
}

// finish stops the goroutines; with completed set, every channel they obtained must be closed.
func (w *watchRacer) finish(completed bool) string {
	close(w.stop)
	w.wg.Wait()
	if w.bad != "" || !completed {
		return w.bad
	}
	w.corr.Raw() // (synchronise with the completing publication)
	for _, l := range w.open {
		for _, rw := range l {
			if !closed(rw.ch) {
				return fmt.Sprintf("Watch(%d) called concurrently with the call's progress is still open after completion", rw.lv)
			}
		}
	}
	return ""
}

func (ce *corrEngine) viol(sig, what string, detail any) { ce.g.viol("C11", sig, what, detail) }

func (ce *corrEngine) run(sc CScenario, slot int) {
	g := ce.g
	e := g.e
	R := e.R
	key := 1000 + sc.N
	if sc.CancelAt >= 0 {
		key = 1000 + sc.N + 100*(slot+1)
	}
	cl, err := g.clusterKey(key, sc.N)
	if err != nil {
		R.Inconc("cluster: " + err.Error())
		return
	}
	defer g.release(cl)
	// a stream of this cluster was reset just before this case (by the context end of the previous case): let its
	// consequences (connection errors for requests written to the dying stream) pass before starting
	for k := 0; k < 40 && g.recentReset(cl, 150*time.Millisecond); k++ {
		time.Sleep(10 * time.Millisecond)
	}
	rcvErr0 := g.rcvErrs(cl)
	stream := strings.HasPrefix(sc.Variant, "CorrStream")
	token := h.NewToken()
	req := &puppet.Req{Call: token, Seq: token, Kind: 11, Pad: []byte("corr")}
	skipIDs := map[uint32]bool{}
	targeted := 0
	for i := 0; i < sc.N; i++ {
		if sc.skip[i] {
			skipIDs[cl.IDs[i]] = true
		} else {
			targeted++
		}
	}
	var f func(*puppet.Req, uint32) *puppet.Req
	if IsPN(sc.Variant) {
		f = PN(skipIDs)
	}
	plans := make([]*Plan, sc.N)
	for i := 0; i < sc.N; i++ {
		if sc.skip[i] {
			continue
		}
		plans[i] = g.dir.Set(token, cl.IDs[i], &Plan{Act: sc.acts[i], Code: sc.codes[i], Msg: fmt.Sprintf("scripted failure %d", i), Stream: sc.Streams[i]})
	}
	defer g.dir.Drop(token)
	maxL := sc.maxLevel()
	var corr Corr
	ready := make(chan struct{})
	var persist []<-chan struct{}
	var smu sync.Mutex
	var snaps []snap
	mon := &h.CallMon{Token: token, Orig: req, Notify: make(chan int, 256)}
	mon.Hook = func(idx int) {
		<-ready
		if idx == 0 {
			return
		}
		s := takeSnap(fmt.Sprintf("start-of-invocation-%d", idx), corr, maxL, persist)
		smu.Lock()
		snaps = append(snaps, s)
		smu.Unlock()
		if sc.Burst {
			time.Sleep(200 * time.Microsecond) // further responses queue up meanwhile
		}
	}
	mon.Decide = func(inv *h.Inv) (bool, int) {
		return sc.DoneAt == inv.Idx, sc.levelAt(inv.Idx)
	}
	cl.QS.Register(mon)
	defer cl.QS.Unregister(token)
	ctx := newManualCtx()
	t0 := h.Go("corr-start", func() {
		corr = StartCorr(cl.Cfg, sc.Variant, ctx, req, f)
	})
	if hi := h.Await(t0, e.W); hi.Verdict != h.Returned {
		R.Inconc("starting correctable call did not return: " + hi.Sig)
		ctx.end(context.Canceled)
		g.discard(sc.N, cl)
		close(ready)
		return
	}
	for lv := -1; lv <= maxL+1; lv++ {
		persist = append(persist, corr.Watch(lv))
	}
	racer := newWatchRacer(corr, maxL, 2)
	racerDone := false
	finishRacer := func(completed bool) {
		if racerDone {
			return
		}
		racerDone = true
		R.Count("watch_calls_racing_with_publications", racer.calls.Load())
		if bad := racer.finish(completed); bad != "" {
			ce.viol("racing-watch-open", bad, map[string]any{"scenario": sc})
		}
	}
	defer finishRacer(false)
	det := func(extra string) map[string]any {
		smu.Lock()
		defer smu.Unlock()
		return map[string]any{"scenario": sc, "invocations": mon.Invs(), "snapshots": append([]snap(nil), snaps...), "note": extra}
	}
	// initial state, before any answer can have arrived (all gates shut)
	if targeted > 0 {
		s0 := takeSnap("initial", corr, maxL, persist)
		if s0.Panic != "" {
			ce.viol("typed-get-panic", "typed Get panicked before the first reply: "+s0.Panic, det(""))
		}
		if s0.Level != gorums.LevelNotSet || !s0.ValNil || s0.err != nil || s0.Done {
			ce.viol("initial-state", fmt.Sprintf("correctable does not start at LevelNotSet with no reply: level=%d nil=%v err=%v done=%v", s0.Level, s0.ValNil, s0.err, s0.Done), det(""))
		} else {
			for i, c := range s0.Watch {
				lv := i - 1
				if c != (lv <= gorums.LevelNotSet) {
					ce.viol("initial-watch", fmt.Sprintf("Watch(%d) closed=%v before any reply", lv, c), det(""))
				}
			}
		}
	}
	close(ready)
	for i, p := range plans {
		if p == nil {
			continue
		}
		select {
		case <-p.Entered():
		case <-time.After(e.W):
			if g.rcvErrs(cl) != rcvErr0 {
				R.Count("disturbed_by_stream_reset", 1)
				ctx.end(context.Canceled)
				ce.teardown(plans)
				return
			}
			R.Inconc(fmt.Sprintf("request of call %d never reached server %d (foreign: delivery); parked: %v", token, i, h.LibSummary(h.Dump(), 0)))
			ctx.end(context.Canceled)
			g.discard(sc.N, cl)
			return
		}
	}
	isDone := func() bool { return closed(corr.Done()) }
	streamPos := make([]int, sc.N)
	errorsReleased, cancelled := 0, false
	failedNodes := 0
	var ctxErr error
	endCtx := func() {
		racer.burst()
		ctxErr = context.Canceled
		if sc.Deadline {
			ctxErr = context.DeadlineExceeded
		}
		ctx.end(ctxErr)
		cancelled = true
	}
	answered := map[int]bool{}
	expectInv := 0 // number of successful replies released so far
	if sc.Burst {
		// every answer at once
		racer.burst()
		for _, i := range sc.Order {
			p := plans[i]
			if stream && streamPos[i] < sc.Streams[i] {
				p.OpenStream(streamPos[i])
				streamPos[i]++
				expectInv++
				continue
			}
			p.Open()
			answered[i] = true
			if p.Act == ActReply {
				expectInv++
			} else {
				errorsReleased++
				failedNodes++
			}
		}
		deadline := time.After(e.W)
	waitBurst:
		for mon.NumInvs() < expectInv && !isDone() {
			select {
			case <-mon.Notify:
			case <-corr.Done():
			case <-time.After(2 * time.Millisecond):
			case <-deadline:
				break waitBurst
			}
		}
		if errorsReleased > 0 {
			time.Sleep(5 * time.Millisecond) // failures arrive on their own
		}
		R.Count("burst_scenarios", 1)
	}
	for pos, i := range sc.Order {
		if sc.Burst {
			break
		}
		if sc.CancelAt == pos {
			endCtx()
			break
		}
		if isDone() {
			break
		}
		p := plans[i]
		id := cl.IDs[i]
		isReply := false
		racer.burst()
		if stream && streamPos[i] < sc.Streams[i] {
			p.OpenStream(streamPos[i])
			streamPos[i]++
			isReply = true
		} else {
			before := int64(0)
			if e.Hooks != nil {
				before = e.Hooks.Count("rcv.afterRoute", id)
			}
			p.Open()
			answered[i] = true
			if p.Act == ActReply {
				isReply = true
			} else {
				errorsReleased++
				failedNodes++
				if e.Hooks != nil {
					e.Hooks.WaitCount("rcv.afterRoute", id, before+1, 20*time.Millisecond)
				} else {
					time.Sleep(3 * time.Millisecond)
				}
			}
		}
		if isReply {
			expectInv++
			want := expectInv
			deadline := time.After(e.W)
		wait:
			for mon.NumInvs() < want && !isDone() {
				select {
				case <-mon.Notify:
				case <-corr.Done():
				case <-time.After(2 * time.Millisecond):
				case <-deadline:
					break wait
				}
			}
		}
	}
	if sc.CancelAt == len(sc.Order) && !cancelled {
		time.Sleep(2 * time.Millisecond)
		endCtx()
	}
	invs := mon.Invs()
	doneIdx := -1
	for _, inv := range invs {
		if inv.Quorum {
			doneIdx = inv.Idx
			break
		}
	}
	allAnswered := len(answered) == targeted
	allFailed := failedNodes == targeted
	mustComplete := doneIdx >= 0 || cancelled || (!stream && allAnswered) || (stream && allFailed)
	disturbed := func() bool { return g.rcvErrs(cl) != rcvErr0 }
	if !mustComplete {
		time.Sleep(3 * time.Millisecond)
		if isDone() && !disturbed() {
			ce.viol("completed-early", "correctable completed although no done was reported, nodes are outstanding and the context is live", det(""))
		}
		endCtx()
	}
	dt := h.Go("await-done", func() { <-corr.Done() })
	if hi := h.Await(dt, e.W); hi.Verdict != h.Returned {
		if disturbed() {
			R.Count("disturbed_by_stream_reset", 1)
		} else {
			// the waiting goroutine is ours; the witness is the library goroutine of the call
			ce.viol("never-completes", "correctable does not complete although its completing condition holds",
				map[string]any{"scenario": sc, "parked": h.LibSummary(h.Dump(), 0), "invocations": mon.Invs()})
		}
		ctx.end(context.Canceled)
		g.discard(sc.N, cl)
		return
	}
	if disturbed() {
		R.Count("disturbed_by_stream_reset", 1)
		ce.teardown(plans)
		return
	}
	finishRacer(true)
	// final snapshots
	finals := []snap{takeSnap("final-1", corr, maxL, persist)}
	time.Sleep(time.Millisecond)
	finals = append(finals, takeSnap("final-2", corr, maxL, persist), takeSnap("final-3", corr, maxL, persist))
	invs = mon.Invs()
	doneIdx = -1
	for _, inv := range invs {
		if inv.Quorum {
			doneIdx = inv.Idx
			break
		}
	}
	retOf := func(inv *h.Inv) any {
		if IsCustom(sc.Variant) {
			return inv.RetAgg
		}
		return inv.RetRep
	}
	// reference model over the observed invocation log
	type state struct {
		val   any
		level int
		done  bool
	}
	model := make([]state, len(invs)+1)
	model[0] = state{nil, gorums.LevelNotSet, false}
	doneBelow := false // the quorum function reported done with a level below an earlier one
	for i, inv := range invs {
		st := model[i]
		switch {
		case st.done:
		case inv.Quorum:
			// "published levels never decrease": a quorum function that reports done together with a level below one it reported
			// before ends the call with its value, at the highest level published
			lv := inv.Level
			if st.level > lv {
				lv = st.level
				doneBelow = true
			}
			st = state{retOf(inv), lv, true}
		case inv.Level > st.level:
			st = state{retOf(inv), inv.Level, false}
		}
		model[i+1] = st
		if doneIdx >= 0 && i > doneIdx {
			ce.viol("qf-after-done", "quorum function invoked after it reported done", det(""))
		}
	}
	smu.Lock()
	ss := append([]snap(nil), snaps...)
	smu.Unlock()
	prevLevel := gorums.LevelNotSet
	for k, s := range ss {
		idx := k + 1 // snapshot taken at the start of invocation idx reflects invocations 0..idx-1
		if idx >= len(model) {
			break
		}
		want := model[idx]
		if s.Panic != "" {
			ce.viol("typed-get-panic", "typed Get panicked: "+s.Panic, det(s.At))
		}
		if s.Level < prevLevel {
			ce.viol("level-decreased", fmt.Sprintf("published level went from %d to %d", prevLevel, s.Level), det(s.At))
		}
		prevLevel = s.Level
		if want.done {
			continue // cannot happen: no invocation follows done (reported above)
		}
		if s.Level != want.level {
			ce.viol("level-not-published", fmt.Sprintf("%s: Get shows level %d, the quorum function has reported up to %d", s.At, s.Level, want.level), det(s.At))
			continue
		}
		if want.val != nil && s.val != want.val {
			ce.viol("value-not-published", fmt.Sprintf("%s: Get does not show the value the quorum function returned with level %d", s.At, want.level), det(s.At))
		}
		if s.Panic == "" && want.val != nil && s.typed != want.val {
			ce.viol("typed-value", fmt.Sprintf("%s: typed Get does not return the published value", s.At), det(s.At))
		}
		if s.Done || s.err != nil {
			ce.viol("done-early", fmt.Sprintf("%s: done/err visible before completion", s.At), det(s.At))
		}
		for i := range s.Watch {
			lv := i - 1
			if s.Watch[i] != (lv <= want.level) || s.Persist[i] != (lv <= want.level) {
				ce.viol("watch-mismatch", fmt.Sprintf("%s: Watch(%d) fresh closed=%v early-created closed=%v at published level %d", s.At, lv, s.Watch[i], s.Persist[i], want.level), det(s.At))
				break
			}
		}
	}
	// final state
	fin := finals[0]
	last := model[len(model)-1]
	for _, s := range finals {
		if s.Panic != "" {
			ce.viol("typed-get-panic", "typed Get panicked after completion: "+s.Panic, det(s.At))
		}
		if !s.Done {
			ce.viol("final-not-done", "Done not released after completion", det(s.At))
		}
		for i := range s.Watch {
			if !s.Watch[i] || !s.Persist[i] {
				ce.viol("final-watch-open", fmt.Sprintf("Watch(%d) not released after completion", i-1), det(s.At))
				break
			}
		}
		if s.val != fin.val || s.Level != fin.Level || s.Err != fin.Err {
			ce.viol("final-unstable", "Get changed after completion", det(s.At))
		}
	}
	outcome := ""
	switch {
	case doneIdx >= 0:
		outcome = "done"
		if doneBelow {
			ce.g.e.R.Count("calls_done_with_a_level_below_an_earlier_one", 1)
			if fin.err == nil && fin.Level < last.level {
				ce.viol("level-decreased", fmt.Sprintf("published level went from %d to %d when the quorum function reported done", last.level, fin.Level), det(""))
			}
		}
		if fin.err != nil || fin.Level != last.level || fin.val != last.val {
			ce.viol("final-done-value", fmt.Sprintf("after done: level=%d (want %d) err=%v value-is-qf-value=%v", fin.Level, last.level, fin.err, fin.val == last.val), det(""))
		}
		if fin.Panic == "" && fin.typed != last.val {
			ce.viol("typed-value", "typed Get does not return the final value", det(""))
		}
	default:
		if fin.err == nil {
			ce.viol("final-no-error", "correctable completed without done and without an error", det(""))
			break
		}
		if fin.Level != last.level {
			ce.viol("final-level", fmt.Sprintf("final level %d, highest level reported %d", fin.Level, last.level), det(""))
		}
		pe, ok := parseQCErr(fin.Err)
		isInc := errors.Is(fin.err, gorums.Incomplete)
		isCtx := ctxErr != nil && errors.Is(fin.err, ctxErr)
		switch {
		case !ok:
			ce.viol("final-error-kind", "unexpected final error: "+fin.Err, det(""))
		case isInc:
			outcome = "incomplete"
			if (stream && !allFailed) || (!stream && !allAnswered) {
				ce.viol("incomplete-early", "Incomplete although nodes are outstanding", det(""))
			}
			if pe.Errors != errorsReleased {
				ce.viol("incomplete-errors", fmt.Sprintf("errors %d, failing nodes %d", pe.Errors, errorsReleased), det(""))
			}
		case isCtx:
			outcome = "ctx"
			if !cancelled {
				ce.viol("ctx-error-without-ctx-end", "context error although the context is live", det(""))
			}
		default:
			ce.viol("final-error-kind", "final error is neither Incomplete nor the context's error: "+fin.Err, det(""))
		}
	}
	ce.teardown(plans)
	sig := fmt.Sprintf("%s|%d|%v|%v|%v|%d|%d", sc.Variant, sc.N, sc.Acts, sc.Order, sc.Levels, sc.DoneAt, sc.CancelAt)
	R.Eval(sig, sc.N >= 2 || len(sc.Order) >= 2)
	R.Count("qf_invocations", int64(len(invs)))
	R.Count("snapshots", int64(len(ss)+len(finals)+1))
	R.Count("outcome."+outcome, 1)
	R.Seen("variants", sc.Variant)
	R.Sample(map[string]any{"scenario": sc, "invocations": len(invs), "outcome": outcome, "snapshots": ss, "final": fin})
}

func (ce *corrEngine) teardown(plans []*Plan) {
	for _, p := range plans {
		if p == nil {
			continue
		}
		for i := range p.sgates {
			p.OpenStream(i)
		}
		p.Open()
	}
}

var corrVariants = []string{"Corr", "CorrPN", "CorrCustom", "CorrCombo", "CorrStream", "CorrStreamPN", "CorrStreamCustom", "CorrStreamCombo"}

// RunCorr is the engine behind C11.
func RunCorr(e *Env) {
	e.R.Rule = "seeded gated correctable scenarios: variant (8, incl. streams/per-node/custom type) x n x node scripts x interleaved release order of (repeated) replies and failures x level function " +
		"(monotone, plateaus, jumps, dips, constant) x done position x ctx-end position x {answers let through one at a time, all at once with a quorum function that takes 0.2 ms so that responses queue up}; snapshots of raw Get, typed Get, Done and Watch(-1..max+1) are taken from inside the next QF invocation (logical time) and after completion; two further goroutines call Watch in bursts of 3000 started just before each reply, error or context end is let through: a channel obtained this way is closed whenever Get shows its level, and after completion; " +
		"directed family: calls whose Done() is asked for the first time only after completion (completion by done / exhaustion / context, known from a Watch channel of an unreachable level); distinct = full scenario; non-trivial = n>=2 or >=2 events"
	e.R.Assume("a call that completes by done keeps the highest level published (levels never decrease) together with the value reported with done")
	e.R.Assume("value on Incomplete / context end is not pinned down by the property; only level, error kind, stability and release of Done/Watch are checked then")
	g := &gatedEngine{e: e, dir: NewDirector(), clusters: map[int]*h.Cluster{}, refs: map[*h.Cluster]int{}, retired: map[*h.Cluster]bool{}, hangSigs: map[string]bool{}}
	defer g.closeAll()
	ce := &corrEngine{g: g}
	rng := e.Rand(11)
	n := e.Pick(6000, 600000)
	var cases []CScenario
	for i := 0; i < n; i++ {
		cases = append(cases, genCScenario(rng, 1+rng.Intn(5), corrVariants))
	}
	work := make(chan CScenario)
	var wg sync.WaitGroup
	for w := 0; w < 8; w++ {
		wg.Add(1)
		go func(slot int) {
			defer wg.Done()
			for sc := range work {
				ce.run(sc, slot)
			}
		}(w)
	}
	for i, sc := range cases {
		if e.Of > 1 && i%e.Of != e.Batch {
			continue
		}
		if e.R.NumViolations() > 100 {
			break
		}
		work <- sc
	}
	close(work)
	wg.Wait()
	runCorrLateDone(e)
	runCorrFlap(e, "C11")
}
