package eng

import (
	"context"
	"fmt"
	"time"

	"verif/internal/gen/puppet"
	"verif/internal/h"

	"google.golang.org/grpc/backoff"
)

// runRestartReceiverLate: a connected node's server crashes; the client's receiver notices the broken stream but is slow to
// act on it (held at the rcv.unlocked point, right after it has given up the stream); the server listens again; a call made
// now re-creates the stream on demand and is handled and answered by the restarted server. "Once the restarted server has
// handled such a call's request and sent its reply, the call receives that reply promptly": whatever the late receiver still
// does about the old stream, the call ends with that reply.
func runRestartReceiverLate(e *Env, rep int) {
	R := e.R
	if e.Hooks == nil {
		return
	}
	bo := backoff.Config{BaseDelay: 20 * time.Millisecond, Multiplier: 1.6, Jitter: 0.2, MaxDelay: 100 * time.Millisecond}
	cl, err := h.NewCluster(h.Options{N: 1, Block: true, DialTimeout: 2 * time.Second, Backoff: &bo, SendBuffer: uint(rep%2) * 2})
	if err != nil {
		R.Inconc("cluster: " + err.Error())
		return
	}
	defer cl.Close()
	id := cl.IDs[0]
	rpc := func(timeout time.Duration) (uint64, *h.Task, *error, **puppet.Rep) {
		tok := h.NewToken()
		var err error
		var r *puppet.Rep
		t := h.Go("probe", func() {
			ctx, cancel := context.WithTimeout(context.Background(), timeout)
			defer cancel()
			r, err = cl.Node(0).RPC(ctx, &puppet.Req{Call: tok, Seq: tok, Kind: 10})
		})
		return tok, t, &err, &r
	}
	handled := func(tok uint64) bool {
		for _, en := range cl.Srvs[0].Log() {
			if en.Call == tok {
				return true
			}
		}
		return false
	}
	if _, t, perr, _ := rpc(3 * time.Second); h.Await(t, e.W).Verdict != h.Returned || *perr != nil {
		R.Inconc("warm-up call failed")
		return
	}
	hold := e.Hooks.Hold("rcv.unlocked", id, 0, 6*time.Second)
	defer e.Hooks.Disarm(hold)
	cl.Srvs[0].Stop()
	select {
	case <-hold.Reached():
	case <-time.After(2 * time.Second):
		R.Count("receiver_late.not_steered", 1)
		R.Eval(fmt.Sprintf("receiver-late|%d", rep), false)
		return
	}
	if err := cl.Srvs[0].Restart(); err != nil {
		R.Inconc("restart: " + err.Error())
		return
	}
	// calls until one is handled by the restarted server (the first ones may find the transport still reconnecting)
	for a := 0; a < 40; a++ {
		tok, t, perr, prep := rpc(3 * time.Second)
		wasHandled := false
	wait:
		for {
			select {
			case <-t.Done:
				break wait
			case <-time.After(time.Millisecond):
				if handled(tok) {
					wasHandled = true
					time.Sleep(5 * time.Millisecond) // the reply is on its way; now the late receiver goes on
					hold.Release()
					break wait
				}
			}
		}
		hi := h.Await(t, e.W+3*time.Second)
		if hi.Verdict != h.Returned {
			hold.Release()
			R.Violate("probe-stuck:"+hi.Sig, "call to a restarted node does not return: "+hi.Sig, map[string]any{"stack": hi.Stack})
			return
		}
		if wasHandled || handled(tok) {
			if *perr != nil || (*prep).GetCall() != tok {
				R.Violate("reply-not-delivered-after-restart", fmt.Sprintf("the restarted server handled and answered the call (made on the stream the call itself re-created), but the call ended with %v: the receiver, acting late on the failure of the old stream, failed it", *perr),
					map[string]any{"attempt": a + 1, "hook_trace(diagnosis)": e.Hooks.NodeTrace(id), "per_message_events(diagnosis)": e.Hooks.MsgEvents(id)})
				return
			}
			R.Count("receiver_late.call_on_the_recreated_stream_got_its_reply", 1)
			R.Eval(fmt.Sprintf("receiver-late|%d", rep), true)
			return
		}
		time.Sleep(10 * time.Millisecond)
	}
	hold.Release()
	R.Inconc("receiver-late: no call reached the restarted server within 40 attempts")
}
