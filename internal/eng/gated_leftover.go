package eng

import (
	"context"
	"fmt"
	"math/rand"
	"strings"
	"time"

	"verif/internal/gen/puppet"
	"verif/internal/h"
)

// runLeftoverRequest: a call reaches its quorum (or ends with its context) while its request to one node has not been written
// yet (that node's sender is held at a hook, before the write); the same goroutine at once makes the next call; then the held
// sender goes on. The first call's request is still delivered (or dropped) as what it was: the node's handler sees the first
// call's token and digest under it, and everything the second call's quorum function is shown - and what the second call
// returns - is an answer to the second call's own request (C01: "only the reply that this node's handler produced for this
// call's own request"). Both orders of variants (sync after sync, async after sync, sync after async) are run.
func (g *gatedEngine) runLeftoverRequest(idx int, rng *rand.Rand) {
	e := g.e
	R := e.R
	if e.Hooks == nil {
		return
	}
	n := 3 + rng.Intn(2)
	vs := []string{"QC", "QCCustom", "Async", "AsyncCustom", "QCPN", "AsyncCombo"}
	v1, v2 := vs[rng.Intn(len(vs))], vs[rng.Intn(len(vs))]
	endByCtx := idx%4 == 3 // the first call is abandoned by its context instead of reaching a quorum
	cl, err := h.NewCluster(h.Options{N: n, Block: true, DialTimeout: 2 * time.Second, SendBuffer: uint([]int{0, 0, 4}[rng.Intn(3)])})
	if err != nil {
		R.Inconc("cluster: " + err.Error())
		return
	}
	defer cl.Close()
	x := rng.Intn(n) // the node whose sender is held
	mk := func(kind uint32) (*puppet.Req, uint64) {
		t := h.NewToken()
		return &puppet.Req{Call: t, Seq: t, Kind: kind, Pad: []byte(fmt.Sprintf("leftover-%d", t))}, t
	}
	req1, tok1 := mk(21)
	req2, tok2 := mk(22)
	pnf := func(v string) func(*puppet.Req, uint32) *puppet.Req {
		if IsPN(v) {
			return PN(nil)
		}
		return nil
	}
	f1, f2 := pnf(v1), pnf(v2)
	exp := func(req *puppet.Req, f func(*puppet.Req, uint32) *puppet.Req, id uint32) uint64 {
		if f != nil {
			return h.Digest(f(req, id))
		}
		return h.Digest(req)
	}
	need1 := n - 1
	if endByCtx {
		need1 = n + 1
	}
	mon1 := &h.CallMon{Token: tok1, Orig: req1, Decide: func(inv *h.Inv) (bool, int) { return len(inv.Keys) >= need1, len(inv.Keys) }}
	mon2 := &h.CallMon{Token: tok2, Orig: req2, Decide: func(inv *h.Inv) (bool, int) { return len(inv.Keys) >= n, len(inv.Keys) }}
	cl.QS.Register(mon1)
	cl.QS.Register(mon2)
	defer cl.QS.Unregister(tok1)
	defer cl.QS.Unregister(tok2)
	hold := e.Hooks.Hold("snd.beforeWrite", cl.IDs[x], 0, 5*time.Second)
	defer e.Hooks.Disarm(hold)
	ctx1, cancel1 := context.WithCancel(context.Background())
	defer cancel1()
	ctx2, cancel2 := context.WithTimeout(context.Background(), 20*time.Second)
	defer cancel2()
	call := func(v string, ctx context.Context, req *puppet.Req, f func(*puppet.Req, uint32) *puppet.Req) Outcome {
		if strings.HasPrefix(v, "Async") {
			return StartAsync(cl.Cfg, v, ctx, req, f).Get()
		}
		return CallQC(cl.Cfg, v, ctx, req, f)
	}
	var out1, out2 Outcome
	if endByCtx {
		go func() {
			select {
			case <-hold.Reached():
				time.Sleep(2 * time.Millisecond) // the other nodes have answered
			case <-time.After(2 * time.Second):
			}
			cancel1()
		}()
	}
	released := make(chan struct{})
	task := h.Go("leftover:"+v1+"+"+v2, func() {
		out1 = call(v1, ctx1, req1, f1)
		go func() { // the held sender goes on once the second call is on its way
			time.Sleep(time.Duration(200+rng.Intn(1500)) * time.Microsecond)
			hold.Release()
			close(released)
		}()
		out2 = call(v2, ctx2, req2, f2)
	})
	hi := h.Await(task, e.W+3*time.Second)
	steered := false
	select {
	case <-hold.Reached():
		steered = true
	default:
	}
	if hi.Verdict != h.Returned {
		hold.Release()
		R.Inconc("leftover: calls did not return: " + hi.State + " " + hi.Sig)
		return
	}
	<-released
	time.Sleep(5 * time.Millisecond) // the first call's leftover request reaches its server
	det := map[string]any{"first": v1, "second": v2, "n": n, "held_node": cl.IDs[x], "first_abandoned_by_context": endByCtx, "steered": steered,
		"first_err": errText(out1.Err), "second_err": errText(out2.Err), "second_invocations": mon2.Invs()}
	// what the second call's quorum function saw
	for _, inv := range mon2.Invs() {
		for id, r := range inv.Reps {
			if r.Call != tok2 || r.Node != id || r.Digest != exp(req2, f2, id) {
				g.viol("C01", "qf-foreign-reply", fmt.Sprintf("the call made right after a call that left a request unsent: its quorum function was shown, under node %d, a reply carrying call token %d (own token %d; the earlier call's %d)", id, r.Call, tok2, tok1), det)
				return
			}
		}
	}
	for _, inv := range mon1.Invs() {
		for id, r := range inv.Reps {
			if r.Call != tok1 || r.Node != id || r.Digest != exp(req1, f1, id) {
				g.viol("C01", "qf-foreign-reply", fmt.Sprintf("first call: reply under node %d carries token %d, own token %d", id, r.Call, tok1), det)
				return
			}
		}
	}
	if out2.Err != nil && !endByCtx { // (a context that ends during a write resets that node's stream: the next call may lose the node)
		g.viol("C01", "next-call-fails", fmt.Sprintf("the call made right after a call that left a request unsent fails although every node is healthy and answers: %v", out2.Err), det)
		return
	}
	// what the servers saw: every handler entry carries a known token with the digest of that call's request for that node
	for i, s := range cl.Srvs {
		for _, en := range s.Log() {
			var want uint64
			switch en.Call {
			case tok1:
				want = exp(req1, f1, cl.IDs[i])
			case tok2:
				want = exp(req2, f2, cl.IDs[i])
			default:
				continue
			}
			if en.Digest != want {
				g.viol("C01", "request-changed-in-flight", fmt.Sprintf("node %d handled a request with token %d whose content is not that call's request", cl.IDs[i], en.Call), det)
				return
			}
		}
	}
	R.Eval(fmt.Sprintf("leftover|%s|%s|%d|%d|%v|%d", v1, v2, n, x, endByCtx, idx), steered)
	if steered {
		R.Count("leftover_request.next_call_made_while_a_request_of_the_previous_call_was_unsent", 1)
	}
}
