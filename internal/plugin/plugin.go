// Package plugin builds CodeGeneratorRequests from programmatic descriptors and
// runs protoc plugins (protoc-gen-go, protoc-gen-gorums) as sub-processes.
// There is no protoc on this image; the request is what protoc would send.
package plugin

import (
	"bytes"
	"context"
	"errors"
	"fmt"
	"os"
	"os/exec"
	"path/filepath"
	"sort"
	"time"

	_ "github.com/relab/gorums" // registers gorums.proto
	"google.golang.org/protobuf/proto"
	"google.golang.org/protobuf/reflect/protodesc"
	"google.golang.org/protobuf/reflect/protoregistry"
	"google.golang.org/protobuf/types/descriptorpb"
	_ "google.golang.org/protobuf/types/known/emptypb"
	_ "google.golang.org/protobuf/types/known/timestamppb"
	"google.golang.org/protobuf/types/pluginpb"
)

// Closure returns files plus all their transitive dependencies (looked up among
// files first, then in the linked Go registry) in dependency order.
func Closure(files []*descriptorpb.FileDescriptorProto, roots ...string) ([]*descriptorpb.FileDescriptorProto, error) {
	byName := map[string]*descriptorpb.FileDescriptorProto{}
	for _, f := range files {
		byName[f.GetName()] = f
	}
	var out []*descriptorpb.FileDescriptorProto
	state := map[string]int{}
	var visit func(name string) error
	visit = func(name string) error {
		switch state[name] {
		case 1:
			return fmt.Errorf("import cycle through %s", name)
		case 2:
			return nil
		}
		state[name] = 1
		f, ok := byName[name]
		if !ok {
			fd, err := protoregistry.GlobalFiles.FindFileByPath(name)
			if err != nil {
				return fmt.Errorf("dependency %q: %w", name, err)
			}
			f = protodesc.ToFileDescriptorProto(fd)
			byName[name] = f
		}
		for _, d := range f.GetDependency() {
			if err := visit(d); err != nil {
				return err
			}
		}
		state[name] = 2
		out = append(out, f)
		return nil
	}
	names := append([]string(nil), roots...)
	if len(names) == 0 {
		for _, f := range files {
			names = append(names, f.GetName())
		}
	}
	sort.Strings(names)
	for _, n := range names {
		if err := visit(n); err != nil {
			return nil, err
		}
	}
	return out, nil
}

// Validate checks that the closure of files is a set of descriptors that
// protoc would accept (resolvable, well-formed).
func Validate(files []*descriptorpb.FileDescriptorProto) error {
	all, err := Closure(files)
	if err != nil {
		return err
	}
	_, err = protodesc.NewFiles(&descriptorpb.FileDescriptorSet{File: all})
	return err
}

// Request builds the CodeGeneratorRequest protoc would send for generating
// the named files.
func Request(files []*descriptorpb.FileDescriptorProto, generate []string, param string) (*pluginpb.CodeGeneratorRequest, error) {
	all, err := Closure(files, generate...)
	if err != nil {
		return nil, err
	}
	req := &pluginpb.CodeGeneratorRequest{
		FileToGenerate: generate,
		ProtoFile:      all,
		CompilerVersion: &pluginpb.Version{
			Major: proto.Int32(4), Minor: proto.Int32(25), Patch: proto.Int32(3), Suffix: proto.String(""),
		},
	}
	if param != "" {
		req.Parameter = proto.String(param)
	}
	return req, nil
}

// Result is the observable outcome of one plugin execution.
type Result struct {
	Exit     int // -1 = killed by timeout
	TimedOut bool
	Stderr   string
	Raw      []byte // raw stdout
	Resp     *pluginpb.CodeGeneratorResponse
	ParseErr error
}

// Files returns name -> content of the response.
func (r *Result) Files() map[string]string {
	m := map[string]string{}
	if r.Resp == nil {
		return m
	}
	for _, f := range r.Resp.File {
		m[f.GetName()] += f.GetContent()
	}
	return m
}

// Diagnosed reports whether the plugin rejected the input with a non-empty diagnostic.
func (r *Result) Diagnosed() bool {
	if r.TimedOut {
		return false
	}
	if r.Exit != 0 {
		return len(bytes.TrimSpace([]byte(r.Stderr))) > 0
	}
	return r.Resp != nil && r.Resp.Error != nil && len(r.Resp.GetError()) > 0
}

// Run executes the plugin binary on req.
func Run(bin string, req *pluginpb.CodeGeneratorRequest, timeout time.Duration, dir string) *Result {
	in, err := proto.Marshal(req)
	if err != nil {
		return &Result{Exit: -2, Stderr: "marshal request: " + err.Error()}
	}
	ctx, cancel := context.WithTimeout(context.Background(), timeout)
	defer cancel()
	cmd := exec.CommandContext(ctx, bin)
	cmd.Stdin = bytes.NewReader(in)
	var so, se bytes.Buffer
	cmd.Stdout, cmd.Stderr = &so, &se
	cmd.Dir = dir
	err = cmd.Run()
	res := &Result{Stderr: se.String(), Raw: so.Bytes()}
	if ctx.Err() != nil {
		res.TimedOut = true
		res.Exit = -1
		return res
	}
	if err != nil {
		var ee *exec.ExitError
		if errors.As(err, &ee) {
			res.Exit = ee.ExitCode()
		} else {
			res.Exit = -2
			res.Stderr += "\n" + err.Error()
		}
		return res
	}
	resp := &pluginpb.CodeGeneratorResponse{}
	if err := proto.Unmarshal(so.Bytes(), resp); err != nil {
		res.ParseErr = err
		return res
	}
	res.Resp = resp
	return res
}

// WriteFiles writes the response files below dir, atomically per file and only
// when the content differs.
func WriteFiles(dir string, files map[string]string) error {
	for name, content := range files {
		p := filepath.Join(dir, name)
		if old, err := os.ReadFile(p); err == nil && string(old) == content {
			continue
		}
		if err := os.MkdirAll(filepath.Dir(p), 0o755); err != nil {
			return err
		}
		tmp, err := os.CreateTemp(filepath.Dir(p), ".tmp-*")
		if err != nil {
			return err
		}
		if _, err := tmp.WriteString(content); err != nil {
			tmp.Close()
			return err
		}
		tmp.Close()
		if err := os.Rename(tmp.Name(), p); err != nil {
			return err
		}
	}
	return nil
}
