#!/usr/bin/env python3
# Regenerates MANIFEST.json from the table below (kept in one place so that it stays valid).
import json, subprocess
props=[json.loads(l) for l in open('/verif/properties.jsonl')]
ids=[p['id'] for p in props]
hooks_commits=["d88d5c6","b12d0fc"]
C={}
def chk(pid, level, text, note, technique, ref, engine):
    C[pid]={"property_id":pid,"quick_cmd":"./check %s quick"%pid,"thorough_cmd":"./check %s thorough"%pid,
      "evidence_file":"/verif/evidence/%s.json"%pid,"replay_cmd_template":"cat {path}","engine":engine,
      "level_claimed":{"category":level,"text":text,"design_ref":ref},"level_note":note,"technique":technique}

chk("C01","exploration",
 "Runs the real quorum-call code paths (stubs regenerated from the working tree, real gRPC over loopback) on thousands of gated scenarios "
 "(script per node x arrival order x quorum function x ctx end, exhaustive for small n) while a monitor inside the harness QuorumSpec records every invocation; "
 "an offline oracle checks value identity, reply genuineness (token/node/request digest), one-at-a-time, growth, no failed node, no call after quorum. Held on the executions observed, not a proof.",
 "Trusts the puppet handlers' stamps, the invocation log recorded by the harness QuorumSpec, and gRPC/protobuf. Error arrival is unobservable; accepted ranges are used.",
 "runtime monitoring: online QF-invocation monitor + offline history oracle over gated executions","DESIGN.md 6 C01","gated")
chk("C02","exploration",
 "Same gated executions as C01 with the outcome oracle: success iff a quorum was reported, Incomplete exactly on exhaustion with errors+replies=targeted (numbers parsed from the error), "
 "context error otherwise; zero/one targeted nodes; ctx end at every position (exhaustive for small n); bounded-progress hang rule with goroutine-dump witness; futures sampled repeatedly.",
 "Liveness is decided only in bounded form (hang rule, W=4/8 s, two dumps). Cases whose stream was reset by gorums itself (observed through hooks) are set aside as disturbed, not judged.",
 "runtime monitoring: outcome oracle over recorded gated histories + bounded-progress hang rule","DESIGN.md 6 C02, 4.4","gated")

chk("C11","exploration",
 "Gated correctable executions (8 variants incl. server streams, per-node, custom type) with snapshots of raw/typed Get, Done and Watch(-1..max+1) taken from inside the next quorum-function invocation (logical time) and after completion, "
 "compared with a reference model computed from the observed invocation log (publish on higher level, value identity, final on done/exhaustion/ctx end, stability, watcher release).",
 "Value on Incomplete/ctx end is not pinned down by the property and not checked; completion waits use the bounded hang rule.",
 "runtime monitoring: reference-model comparison of snapshots taken at logical instants of gated executions","DESIGN.md 6 C11","corr")
chk("C16","exploration",
 "Runs the real protoc-gen-gorums binary (built from the working tree) as a subprocess on hundreds/thousands of synthesized service descriptors: documented-legal lattice, every documented illegal input, identifier-collision inputs; "
 "observes exit status/diagnostic/response, compiles accepted output with protoc-gen-go's output in one go build, and repeats each run to compare bytes.",
 "Inputs are descriptors validated by protodesc.NewFiles (no protoc front end on this image). 'Compiles' = go build against /repo's runtime.",
 "runtime monitoring of the generator: subprocess execution on generated inputs with compile oracle and repeat-run byte comparison","DESIGN.md 6 C16","vgen")
chk("C17","exploration",
 "Regenerates every committed generated file (tests/*, benchmark, examples/storage, dev/zorums_*, template_static.go via --bundle) with the working-tree plugin from the descriptor embedded in the sibling .pb.go and compares ASTs with comments stripped; "
 "for committed, puppet and synthesized services compares the client Method literal, RegisterHandler key, runtime entry point and ServerStream flag of each emitted stub with the descriptor; behavioural binding conformance on the regenerated puppet service.",
 "Descriptor literals are read with go/parser (source comments are not in them, hence comments are set aside as the property allows).",
 "golden/AST comparison of regenerated output + binding extraction from emitted code + behavioural binding run","DESIGN.md 6 C17","vgen")

m={
 "version":1,
 "setup_cmd":"./setup.sh",
 "hooks":{"guard":"verif","enable":"go build -tags verif (verif_on.go: hook + accessors; verifPoint(...) calls are no-ops without the tag)",
          "baseline_off_cmd":"./baseline_off.sh","source_commits":hooks_commits,"add_only":True},
 "engines":[
   {"name":"veng","path":"cmd/veng","serves_properties":sorted(k for k in C if k not in("C16","C17")),"kind_free_text":"behavioural engines on real gorums + gRPC with puppet servers, hook steering, hang rule"},
   {"name":"vgen","path":"cmd/vgen","serves_properties":[k for k in ("C16","C17") if k in C],"kind_free_text":"runs the real protoc-gen-gorums binary on synthesized descriptors; golden/AST comparison; go build of output"},
 ],
 "checks":[C[k] for k in sorted(C)],
 "notes":"See DESIGN.md. Known findings: known_findings.json. Every check rebuilds plugins, stubs and engines from /repo's working tree.",
 "not_applicable":[{"property_id":i,"reason":"check under construction in this round (DESIGN.md section 11); not claimed yet"} for i in ids if i not in C]
}
json.dump(m,open('/verif/MANIFEST.json','w'),indent=1)
print("checks:",sorted(C))
