#!/usr/bin/env python3
# Regenerates MANIFEST.json from the table below (kept in one place so that it stays valid).
import json, subprocess
props=[json.loads(l) for l in open('/verif/properties.jsonl')]
ids=[p['id'] for p in props]
hooks_commits=["d88d5c6","b12d0fc","c8c01cf", "a8c51c9"]
C={}
def chk(pid, level, text, note, technique, ref, engine):
    C[pid]={"property_id":pid,"quick_cmd":"./check %s quick"%pid,"thorough_cmd":"./check %s thorough"%pid,
      "evidence_file":"/verif/evidence/%s.json"%pid,"replay_cmd_template":"cat {path}","engine":engine,
      "level_claimed":{"category":level,"text":text,"design_ref":ref},"level_note":note,"technique":technique}

chk("C01","exploration",
 "Runs the real quorum-call code paths (stubs regenerated from the working tree, real gRPC over loopback) on thousands of gated scenarios "
 "(script per node x arrival order x quorum function x ctx end, exhaustive for small n) while a monitor inside the harness QuorumSpec records every invocation; "
 "an offline oracle checks value identity, reply genuineness (token/node/request digest), one-at-a-time, growth, no failed node, no call after quorum. Held on the executions observed, not a proof.",
 "Trusts the puppet handlers' stamps, the invocation log recorded by the harness QuorumSpec, and gRPC/protobuf. Error arrival is unobservable; accepted ranges are used.",
 "runtime monitoring: online QF-invocation monitor + offline history oracle over gated executions","DESIGN.md 6 C01","gated")
chk("C02","exploration",
 "Same gated executions as C01 with the outcome oracle: success iff a quorum was reported, Incomplete exactly on exhaustion with errors+replies=targeted (numbers parsed from the error), "
 "context error otherwise; zero/one targeted nodes; ctx end at every position (exhaustive for small n); bounded-progress hang rule with goroutine-dump witness; futures polled (Done, then Get at once) from two extra goroutines and sampled repeatedly; storms of calls needing every node while streams are broken from the sender side (nodes shown to the quorum function + nodes named in the error must cover the configuration).",
 "Liveness is decided only in bounded form (hang rule, W=4/8 s, two dumps). Cases whose stream was reset by gorums itself (observed through hooks) are set aside as disturbed, not judged.",
 "runtime monitoring: outcome oracle over recorded gated histories + bounded-progress hang rule","DESIGN.md 6 C02, 4.4","gated")

chk("C03","exploration",
 "Random mixed-call-type client programs (one goroutine or a baton chain) against puppet servers with gated/slow handlers, all send-buffer sizes, PCT delays at hook points; offline oracle over server entry logs: per (server, connection) the issue sequence is strictly increasing in handler-start order, no call handled twice, and without cancellation nothing is lost and one connection per server.",
 "Handler start is observed at puppet handler entry under the server's log mutex, before any Release. 'Lost message' is decided in bounded form (no log growth across two samples after W).",
 "runtime monitoring: offline ordering/exactly-once checker over recorded server entry logs of random programs","DESIGN.md 6 C03","fifo")
chk("C04","exploration",
 "Online monitor inside puppet handlers (per connection: handlers entered and not yet released must be exactly 1 at entry) over workloads of 1-4 client connections per server mixing release scripts (early, 100x, helper goroutine, concurrent, never until gate, reply late), "
 "plus directed sub-cases: a holding handler delays only its own connection, the queued handler starts after the release (hang rule), replies of released handlers carry the right token; fatal runtime errors (unlock of unlocked mutex) are caught as child crashes.",
 "Monitor decrement precedes the unlock and increment follows the server's lock hand-over, so a correct server cannot be flagged.",
 "runtime monitoring: online per-connection handler-overlap assertion + directed progress checks (hang rule) + crash capture","DESIGN.md 6 C04","handlers")
chk("C06","exploration",
 "Every configuration-level call type with per-node functions (identity, distinct payloads, skipping any subset incl. all): server entry logs must show exactly one delivery per targeted (call,node) with the digest of f(req,id), none for skipped nodes, skipped nodes neither waited for nor counted; "
 "one-way calls must return while handlers hold their connection, and with no-send-waiting while the sender goroutine is held at a hook before the write; exactly-once afterwards.",
 "Bounded-progress form for 'returns'; the sender hold uses the build-tag hook snd.beforeWrite (steering only, the verdict is the call's return).",
 "runtime monitoring: delivery oracle over server entry logs + hook-steered return checks with the hang rule","DESIGN.md 6 C06","pernode")
chk("C09","exploration",
 "Workload phases of all call kinds with cancellations before/during/after sending, slow quorum functions, streaming servers, PCT delays at every channel hook point, and directed scripts (stale-broken window of reconnect, streams outrunning a finished correctable, cancel while a write is blocked, cancel right after return); "
 "black-box oracle: after each phase a probe RPC with a fresh context to every node must be answered (3 attempts, hang rule with goroutine-dump witness and wedge signature).",
 "Usability is decided in bounded form. Two wedges found this way on the original tree were repaired (fix: 328fbda).",
 "runtime monitoring: black-box probe oracle after hostile phases, hook-steered schedules, hang rule witness","DESIGN.md 6 C09","usable")
chk("C05","exploration",
 "Concurrent soaks (8-64 goroutines, one manager, 5-9 nodes, 6-20 overlapping configurations, all 21 call kinds, delayed / late / never replies, cancelled and timed-out contexts, oversized writes, server restarts) with an online oracle inside every quorum function and on every return: own token, node stamp = key, digest of the request meant for that node, one new key per invocation, at most one error line per node; errors are attributed like replies (handler errors name their call and node; a context's own error under a live context belongs to another call).",
 "Unique tokens and per-node payloads make replies identify their requests; reply delivery to an ended call is observed as an orphan quorum-function invocation.",
 "runtime monitoring: online attribution oracle (unique ids) inside quorum functions over concurrent soaks","DESIGN.md 6 C05","soak")
chk("C07","fault_enumeration",
 "Fault grid over failing subsets x failure kinds (never started, stopped before/during/after, resets before/during/while the request is queued via a hook hold, refused, handler error with every status code) x QC/Async/Corr x dial mode; storms of calls under sender-side stream breaks (every failing node named once, never together with its reply); oracle on outcome, per-node error lines parsed from the error text, quorum-function log and completion (hang rule).",
 "Port of a stopped server stays reserved (bound, not listening) so that refused really is refused; unavailable-type texts observed are listed in the evidence.",
 "runtime monitoring: fault injection (server stop, TCP proxy reset/refuse, hook-held sender) with error-text and QF-log oracle","DESIGN.md 6 C07","faults")
chk("C08","exploration",
 "Grid over call kind x node behaviour (never answers, holds connection, stalled proxy, refused, reconnect into a tarpit, slow) x concurrent traffic x {other nodes fine, other nodes' handlers fail by themselves} x context kind (harness-ended, WithCancelCause/WithTimeoutCause) x instant of the context end placed with hooks (before the call, queued, being written, write blocked by flow control, awaiting replies) x cancel/deadline; "
 "hang rule from the logged context end with goroutine-dump witness; errors.Is(err, ctx.Err()) unless the node legitimately failed the call.",
 "A manual context (Done/Err triggered by the harness) stands for cancel and deadline; latencies are reported, the verdict is the bounded hang rule.",
 "runtime monitoring: hook-placed context ends, bounded-progress hang rule, error-matching oracle","DESIGN.md 6 C08","ctxend")
chk("C10","fault_enumeration",
 "Seeded stop/start sequences (down at creation, crash idle / with gated handler / twice, outages) with three back-off configurations incl. a fixed 6 s; probes with fresh contexts must reach the restarted server within 2B+W, a probe the server handled and answered must return within 3 s (< B); "
 "server-side monitor: connect callback exactly once per stream and before the first handler, manager and per-node metadata present with the right values.",
 "Server-side 'handled' event = puppet handler entry log; back-off wait is identified by the receiver parked in reconnect's select in the dump.",
 "runtime monitoring: fault sequences with server-side event log, probe oracle, metadata monitor in the connect callback","DESIGN.md 6 C10","restart")
chk("C12","fault_enumeration",
 "Grid over send buffer x node states (connected, refused, server killed) x in-flight call kinds x strike point of Close placed with hooks (incl. while the receiver has a reply in hand) x {single, concurrent, repeated Close}; Close racing with configuration creation and with the dial of a new node; servers live in a child process so every grpc/gorums goroutine of the client process belongs to the manager; "
 "oracle: in-flight calls return, calls after Close return (hang rule), no client goroutine survives (dump diff against a baseline), server child reports no live stream, no panic.",
 "Goroutines are attributed by frames/creation site in runtime.Stack output. Tarpit state only in thorough.",
 "runtime monitoring: hook-placed Close, goroutine-dump residue check, hang rule, server-side stream liveness query","DESIGN.md 6 C12","closing")
chk("C13","exploration",
 "Codec round trips for every method in the linked registry (puppet + repository services) in both directions with protoreflect-filled random messages, metadata and statuses; hostile frames (mutations, truncation at every offset, length-prefix rewrites, method-name dictionary of non-method entities) decoded under recover; "
 "a sample written by a raw gRPC client onto a live NodeStream of a separate server process that must survive.",
 "Inputs are written to disk before risky calls; a fatal runtime error would be caught as a child crash.",
 "runtime monitoring: round-trip equality oracle + panic/crash monitor over mutational fuzz, in-process and against a live server process","DESIGN.md 6 C13","codec")
chk("C14","exploration",
 "Model-based random programs of configuration-building operations over address pools with duplicates, overlaps, foreign ids and FNV collisions found at run time; set-model oracle on contents, order, agreement of accessors, operand immutability, node-object identity, addresses; live sub-check: one stream per server for 25 overlapping configurations.",
 "After a failed creation the pool contents are re-read (not specified by the property).",
 "runtime monitoring: reference set model compared after every step of random API programs","DESIGN.md 6 C14","configs")
chk("C18","exploration",
 "Soaks of all call kinds ending in every way (incl. oversized writes with a never-ending context, restarts) and, at quiescent points, the per-node router count (read-only accessor) and goroutines of per-call library functions must be zero; directed cases with context.Background() judged once all targeted servers answered; process-wide goroutine count over calls to a node unreachable since creation; survivors are reported with their frames.",
 "Router count via build-tag accessor under the channel's own lock; goroutines attributed by function name in the dump.",
 "runtime monitoring: structural invariant (router map empty, no per-call goroutines) checked at quiescent points of soaks","DESIGN.md 6 C18","soak")
chk("C19","exploration",
 "Tens of thousands of sorts of node slices drawn from a pool of real nodes (repeated ids/ports, last-error patterns) by every key sequence; oracle: permutation + lexicographic order under model keys; strict-weak-order laws per key on all pairs.",
 "Model keys: numeric id, numeric port, LastErr()!=nil.",
 "runtime monitoring: reference-model comparison of sort results + algebraic law checks","DESIGN.md 6 C19","sorters")
chk("C11","exploration",
 "Gated correctable executions (8 variants incl. server streams, per-node, custom type) with snapshots of raw/typed Get, Done and Watch(-1..max+1) taken from inside the next quorum-function invocation (logical time) and after completion, "
 "compared with a reference model computed from the observed invocation log (publish on higher level, value identity, final on done/exhaustion/ctx end, stability, watcher release); bursts (all answers at once, slow quorum function); Watch calls racing with publications from two extra goroutines; first Done() asked after completion.",
 "Value on Incomplete/ctx end is not pinned down by the property and not checked; completion waits use the bounded hang rule.",
 "runtime monitoring: reference-model comparison of snapshots taken at logical instants of gated executions","DESIGN.md 6 C11","corr")
chk("C15","exploration",
 "The engines' concurrent workloads (all call kinds, cancellations, timeouts, concurrent configuration creation and Nodes()/NodeIDs()/Size(), early/helper Release, restarts, re-dial of down nodes, Close under traffic) run in a binary built with -race, with a sync-free sleep-only hook and monitors without shared state, at GOMAXPROCS 2/4/16; "
 "the detector's log files are parsed, reports attributed (library vs harness) and de-duplicated by function pair.",
 "The detector sees only executed code and only races that happen in the run; a clean run is not a proof. Hook coverage evidence comes from the non-race twins (C03, C05, C09, C12).",
 "Go race detector over hostile concurrent workloads with sleep-driven windows; log-parsing oracle","DESIGN.md 6 C15, 4.3, 4.6","races")
chk("C16","exploration",
 "Runs the real protoc-gen-gorums binary (built from the working tree) as a subprocess on hundreds/thousands of synthesized service descriptors: documented-legal lattice, every documented illegal input, identifier-collision inputs; "
 "observes exit status/diagnostic/response, compiles accepted output with protoc-gen-go's output in one go build, and repeats each run to compare bytes.",
 "Inputs are descriptors validated by protodesc.NewFiles (no protoc front end on this image). 'Compiles' = go build against /repo's runtime.",
 "runtime monitoring of the generator: subprocess execution on generated inputs with compile oracle and repeat-run byte comparison","DESIGN.md 6 C16","vgen")
chk("C17","exploration",
 "Regenerates every committed generated file (tests/*, benchmark, examples/storage, dev/zorums_*, template_static.go via --bundle) with the working-tree plugin from the descriptor embedded in the sibling .pb.go and compares ASTs with comments stripped; "
 "for committed, puppet and synthesized services compares the client Method literal, RegisterHandler key, runtime entry point and ServerStream flag of each emitted stub with the descriptor; behavioural binding conformance on the regenerated puppet service.",
 "Descriptor literals are read with go/parser (source comments are not in them, hence comments are set aside as the property allows).",
 "golden/AST comparison of regenerated output + binding extraction from emitted code + behavioural binding run","DESIGN.md 6 C17","vgen")

# oracles added in the fourth round of seeded changes (DESIGN.md section 14)
extra={
 "C01":" Directed family 'leftover request': a call ends while its request to one node is still unsent (sender held at a hook), the next call is made at once; both calls' reply sets and the servers' logs are held to tokens and digests.",
 "C04":" Directed case: a client leaves (manager closed) while one of its handlers holds the connection with further requests buffered behind it; the handlers count entries on that connection while the holder holds.",
 "C05":" Alias soak: every server is known to the manager under two node ids; every reply-set key must be an id of the calling configuration and the reply under it must come from the server that id stands for.",
 "C06":" Directed family: a connection reset (server stays up) strikes while the sender is held before the write of a one-way message; the one-way calls that follow return and are delivered exactly once.",
 "C07":" Recovery calls after handler errors (the node is healthy in the next call); streams cancelled after a successful write (watcher held at a hook) with a bystander call that must complete with one error for the node; a node failing several times under one streaming correctable is reported once.",
 "C08":" Traffic kind: a streaming correctable with a stalled consumer on the same node keeps the node's receiver parked in a hand-over while the context of the call under test ends.",
 "C10":" Directed case: the receiver acts late on a crash (held at a hook) while a call re-creates the stream and is answered by the restarted server; the call must get that reply.",
 "C11":" Flapping-node family: one node's server crashes and returns several times under a streaming correctable while the others stay healthy; the call must not complete before its context ends.",
 "C13":" Status texts that look like an encoding of something else (percent escapes, plus signs, backslash escapes, entities, base64, blanks, 1.5 KB / 56 KB) in the end-to-end sequences.",
 "C16":" Message types imported from Go packages named like the generated code's own imports; reserved identifiers under lower-case/snake-case spellings and as service names; same-named local and imported response types; repeat runs in dev mode (parameter dev=true).",
 "C17":" The binding check also compares the result type of each promise type's Get with the result type of the quorum function that produces the value, on tricky and import-name definitions too.",
 "C18":" Directed: 45 calls of all kinds on a closed manager leave no router; heap monitor: live heap objects after GC over three windows of 1000 completed calls (to an unreachable node; on healthy nodes; with every other write failing) must not grow by more than 1.3 objects per call in both of the last two windows.",
 "C19":" Pool of never-connected nodes (WithNoConnect manager, nodes no manager has adopted): sorted like any others, LastNodeError included.",
}
for k,v in extra.items():
    C[k]["level_claimed"]["text"]+=v

m={
 "version":1,
 "setup_cmd":"./setup.sh",
 "hooks":{"guard":"verif","enable":"go build -tags verif (verif_on.go: hook + accessors; verifPoint(...) calls are no-ops without the tag)",
          "baseline_off_cmd":"./baseline_off.sh","source_commits":hooks_commits,"add_only":True},
 "engines":[
   {"name":"veng","path":"cmd/veng","serves_properties":sorted(k for k in C if k not in("C16","C17")),"kind_free_text":"behavioural engines on real gorums + gRPC with puppet servers, hook steering, hang rule"},
   {"name":"vgen","path":"cmd/vgen","serves_properties":[k for k in ("C16","C17") if k in C],"kind_free_text":"runs the real protoc-gen-gorums binary on synthesized descriptors; golden/AST comparison; go build of output"},
 ],
 "checks":[C[k] for k in sorted(C)],
 "notes":"See DESIGN.md. Known findings: known_findings.json. Every check rebuilds plugins, stubs and engines from /repo's working tree.",
 "not_applicable":[{"property_id":i,"reason":"check under construction (DESIGN.md section 11); not claimed yet"} for i in ids if i not in C]
}
json.dump(m,open('/verif/MANIFEST.json','w'),indent=1)
print("checks:",sorted(C))
